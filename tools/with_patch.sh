#!/bin/bash
# usage: tools/with_patch.sh <patch.diff> <command...>   (applies to /repo, runs, always reverts)
p=$1; shift
git -C /repo diff --quiet || { echo "/repo has uncommitted changes"; exit 3; }
git -C /repo apply "$p" || { echo "patch does not apply"; exit 3; }
"$@"; rc=$?
git -C /repo checkout -- . ; git -C /repo clean -fdq -e '*.egg-info' 2>/dev/null
exit $rc
