#!/usr/bin/env python3
"""usage: tools/keep_seed.py <PID> <slug> <caught_by comma list> "<needs>" [seed dir]
Copies a validated sub-agent seed into /verif/seeded/<PID>-<slug>/ with meta.json."""
import json, os, shutil, sys
pid, slug, caught, needs = sys.argv[1:5]
sd = sys.argv[5] if len(sys.argv) > 5 else "/tmp/seedwt/%s/SEED" % pid
val = "/root/scratch/seedval/%s" % (os.environ.get("VALKEY") or pid)
dst = "/verif/seeded/%s-%s" % (pid, slug)
os.makedirs(dst, exist_ok=True)
for f in ("patch.diff", "demo.py", "NOTES.md"):
    if os.path.exists(os.path.join(sd, f)):
        shutil.copy(os.path.join(sd, f), os.path.join(dst, f))
def rd(f):
    p = os.path.join(val, f)
    return open(p).read().strip() if os.path.exists(p) else None
meta = {
    "property": pid,
    "origin": "written by a fresh sub-agent that was given only the property text and its own scratch worktree (nothing from /verif)",
    "needs_to_manifest": needs,
    "confirmed_by_me_in_scratch_worktree": {
        "demo_on_clean_tree": rd("demo_clean.rc"), "demo_with_patch": rd("demo_patched.rc"),
        "baseline_suite_with_patch": rd("tests.summary"),
        "commands": ["cd <worktree> && /venv/bin/python SEED/demo.py", "git apply SEED/patch.diff && /venv/bin/python SEED/demo.py",
                     "/venv/bin/python -m pytest -q -p no:cacheprovider --timeout=900 --continue-on-collection-errors phyclone/tests"],
    },
    "caught_by": [c for c in caught.split(",") if c],
    "how_checked": "tools/try_seed.sh %s <check ids>: patch applied in the scratch worktree, checks run with VERIF_REPO pointing at it (quick tier)" % pid,
}
json.dump(meta, open(os.path.join(dst, "meta.json"), "w"), indent=1)
print("kept", dst)
