#!/bin/bash
# usage: tools/try_safe.sh <Sxx worktree name> <check ids...> : applies SAFE/patch.diff in that worktree and runs the checks; they must stay silent
w=$1; shift; wt=/tmp/seedwt/$w
cd $wt && git checkout -q -- . && git apply SAFE/patch.diff || { echo "patch does not apply"; exit 3; }
cd /verif
for id in "$@"; do
  echo "== benign $w vs check $id"
  VERIF_REPO=$wt VERIF_OUT=/root/scratch/mutruns/safe_$w ./check $id 2>&1 | grep -E "^$id tier=|violation:|HARNESS|Error|error" | head -4 | cut -c1-400
done
cd $wt && git checkout -q -- .
