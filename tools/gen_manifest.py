#!/usr/bin/env python3
"""Regenerates /verif/MANIFEST.json from the table below (kept in one place so it stays valid)."""
import json
import os

HERE = os.path.dirname(os.path.dirname(os.path.abspath(__file__)))

ENUM = "exhaustive enumeration of the random generator (EnumRNG) on the real sampler code"
CHECKS = {
    "C01": dict(
        engine="E1 EnumRNG explorer + E2 state space",
        category="model_checking",
        technique="stateless exhaustive exploration of every random outcome of the real sampler (exact transition matrix) + global-balance invariant",
        text="Exact transition matrix of the real ParticleGibbsTreeSampler from every start tree (n<=3 quick, n<=4 thorough; every "
             "kernel, both wirings, outliers on/off, alphas, thresholds, N<=3/4) by enumerating every outcome of every random draw; "
             "global balance against the recorded log_p_one decided at 1e-10; includes kernels re-used across an alpha change and the run loop's sampler set after burn-in passes. Exhaustive within the bounds, no sampling.",
        note="Trusted: numpy/scipy semantics of the overridden Generator methods; data values from a finite alphabet; pi is the repo's own log_p_one (C03 ties it to the model).",
        design="4/C01",
    ),
    "C04": dict(
        engine="E1 EnumRNG explorer + E2 state space",
        category="model_checking",
        technique="stateless exhaustive exploration of every random outcome of each real move (exact transition matrix) + global-balance invariant; block-conditional reversibility for the subtree move",
        text="Exact transition matrices of DataPointSampler, PruneRegraphSampler, ParticleGibbsSubtreeSampler and of one real "
             "iteration of the run loop, from every start tree (n<=3, n=4 for dp/prg), outliers on/off, alphas, data alphabet; global "
             "balance at 1e-10. The subtree move's global balance for n>=3 is a recorded known finding (fingerprinted per config); its "
             "block-conditional reversibility is checked without exception.",
        note="Trusted: as C01. Known finding F-C04-subtree-selection in known_findings.json.",
        design="4/C04",
    ),
    "C08": dict(
        engine="E1 EnumRNG explorer + E2 state space",
        category="model_checking",
        technique="exhaustive enumeration of every parent tree x placement and of every execution of sample()/SMC/conditional SMC paths under EnumRNG, against an oracle list of placements and the target/proposal identity",
        text="For every kernel x outlier proposal x permutation distribution x parent tree over <=3 (4) data points: the oracle's complete list "
             "of placements is scored (sum of reported probabilities = 1, all positive) and ALL executions of sample() reproduce exp(log_p) "
             "exactly; for every data order ALL placement paths of SMCSampler and ConditionalSMCSampler (every compatible retained tree) are "
             "enumerated and weight ratios must equal target/proposal ratios including generation 1; reachable final trees = compatible trees. A second pass over every parent tree with deep two-sample data judges positivity and normalisation in log space; kernels re-used after alpha changes of 2.9 and of 3e-5.",
        note="Weights are judged up to the per-generation normalisation the swarm applies (ratios between particles of one swarm). Data from a generic alphabet.",
        design="4/C08",
    ),
    "C09": dict(
        engine="E1 EnumRNG explorer + E2 state space",
        category="model_checking",
        technique="exhaustive enumeration of every shuffle outcome of RootPermutationDistribution.sample on every tree over n<=4 (5) data points vs brute-force filter of all n! orders",
        text="Exact distribution over data orders for all 427 trees over <=4 data points incl. every outlier subset (n=5 thorough), three "
             "sibling/label variants: support = brute-force compatible orders, every order has probability 1/count to 1e-12, log_pdf = -log(count); large forests against an exact integer count; every state of the edit-history BFS (reads between edits): log_pdf = -log(exact count) and a drawn order is compatible; clones of 20-70 data points against the exact integer count.",
        note="Trusted: the brute-force linear-extension filter in mc/oracle.py.",
        design="4/C09",
    ),
    "C02": dict(engine="E4 input enumerator + E2 reference", category="model_checking",
        technique="bounded-exhaustive enumeration of all rooted labelled forests x data alphabet x grid sizes on the real Tree, against the literal sum and a sound interval recursion",
        text="Every rooted labelled forest on <=4 (5) nodes x grid {2..5} x 1-2 samples x 6 data kinds, six build histories each (incl. the original after its copy was edited and an older-trace dictionary), a point removed and put back, large forests, plus the direct->FFT switch at 999/1000/1001 grid points; "
             "per entry: finite, inside a sound enclosure [L,U] that models the documented floor and per-convolution error, and equal to the exact value at 1e-9 wherever the enclosure is tight.",
        note="Trusted: the O(G^2) log-domain recursion (validated in-run against the literal sum over all index assignments where G^K<=4000); error model constants (1e-12 relative, 1e-11 FFT absolute).", design="4/C02"),
    "C03": dict(engine="E2 state space + reference", category="model_checking",
        technique="exhaustive enumeration of all 427 trees over <=4 data points x construction histories x alpha x outlier priors, against closed-form FS-CRP densities; all-pairs identity check",
        text="log_p, log_p_one and the fused variant of every tree (every outlier subset) built post-order, reversed, from_dict, relabelled, in EVERY compatible SMC data order and via "
             "prune-regraft, vs the closed formulas with the literal-sum data term (1e-8 relative); large forests (8-12 clones); every tree over 3 clustered data points that the real loader produced "
             "from input + cluster files in three layouts x 1-3 samples x outlier priors (model's outlier terms taken from the files); a distribution object whose alpha is re-assigned between evaluations; heterogeneous outlier priors with zeros; two samples ~1500 log units apart; trees sharing a grafted subtree object with a tree edited in place; ==/hash over all pairs incl. trees over different data subsets.",
        note="Trusted: mc/oracle.py ref_log_joint written from the statement (root-count penalty includes its geometric normaliser).", design="4/C03"),
    "C05": dict(engine="E4 input enumerator", category="model_checking",
        technique="bounded-exhaustive enumeration of the read-count x copy-number x purity x error-rate x density x precision x grid cross-product through real input files, against scipy pmfs",
        text="Every case of the cross-product in DESIGN 4/C05 through load_data vs binom/betabinom mixtures (1e-8 relative); normalisation over every alternate count for 4 depths; every partition of 4 mutations into clusters; clusters of 60-800 mutations; multi-sample inputs with scrambled rows and per-sample copy numbers; error rates from 1e-9 to 0.499.",
        note="Trusted: scipy.stats.binom / betabinom.", design="4/C05"),
    "C06": dict(engine="E3 edit-history BFS", category="model_checking",
        technique="explicit-state BFS over edit histories of the real Tree (canonical-state dedup, n=3 to the fixpoint) with a fresh-rebuild differential invariant in every state",
        text="Every state reachable by the samplers' edit grammar for n=3 (closed: ~12k states, 260k transitions) and to depth 5-6 for n=4: per-clone log_p/log_r, root vector, log_p, log_p_one, fused variant equal a fresh build to 1e-9(1+depth). Isolation part: every tree over <=3 (4) data points x every subtree (extracted or rebuilt from nothing) "
             "grafted onto two copies of the pruned tree at every pair of parents, then every in-place edit of the first copy's grafted clones: the other live trees stay unchanged and equal to their fresh builds; likewise several trees restored from one dictionary / particle. Every public read method is called between edits (derived values kept on the object are warm); searches whose fresh build is made on emptied memo tables (also at 1000/1001 grid points) and searches that stop between a graft and the samplers' update().",
        note="Canonical form covers every slot incl. sibling order and the graph library's vacated-position list; SMC placements only on SMC-built states (as the samplers compose them).", design="4/C06"),
    "C07": dict(engine="E3 edit-history BFS + E1 explorer", category="model_checking",
        technique="structural invariant evaluated in every state of the explicit-state edit BFS and on the result of every enumerated execution of every sampler move",
        text="Well-formedness (one parent, reachable, unique names, inverse maps, payloads = data lists, each data point exactly once, data set conserved) in every BFS state and after EVERY execution of "
             "burn-in SMC, particle Gibbs, subtree, data-point and prune-regraft moves from every start tree over <=3 data points; the dictionary form recorded before each move (as the run loop records it) restores unchanged after it.",
        note="Reads the Tree's __slots__ directly.", design="4/C07"),
    "C10": dict(engine="E4 input enumerator + E2 reference", category="model_checking",
        technique="bounded-exhaustive enumeration of all forests x grids x data alphabet incl. forced ties, against a brute-force maximum over all feasible index assignments",
        text="MAP CCF dictionaries (and the table columns) for every forest on <=4 (5) nodes: on-grid, feasible per sample, score equals the brute-force maximum, prevalence = ccf - children >= -1e-12; large forests and grids of 256-301 (1000) points against an independent dynamic programme.",
        note="Ties: any maximiser accepted.", design="4/C10"),
    "C11": dict(engine="E4 trace enumerator", category="model_checking",
        technique="exhaustive enumeration of all traces up to 3 chains x 3 (4) entries over a tree/score alphabet x every chain completion order, through the real writer and summary commands, against a Counter",
        text="Every small trace (two alphabets, relabelled copies, ties) x every split over chains x every insertion order: map (both modes) returns a maximiser; topology report rows/counts/scores/pointers/ranking/archive exact.",
        note="MAP tree identified by decoding table + Newick.", design="4/C11"),
    "C12": dict(engine="E4 trace enumerator", category="model_checking",
        technique="exhaustive enumeration of every tree over <=3 data points (all outlier subsets) x clustered/unclustered x samples through all summary commands, outputs decoded and compared",
        text="Every command output (table + Newick) decoded: each mutation once per sample, clone ids are Newick nodes or -1, cluster members share a clone, ccf/prevalence per clone feasible, optimal and in [0,1] or -1; commands complete incl. all-outlier trees, empty-clone consensus trees and even splits between every pair of distinct trees; a listed cluster without data point; end-to-end through the command line; one chain and 2-3 chains stored in completion orders that do not start with chain 0; 12-point trees with ids >= 10 and 3 samples.",
        note="Newick labels compared as strings.", design="4/C12"),
    "C13": dict(engine="E1 EnumRNG (recording) + E2", category="model_checking",
        technique="exhaustive enumeration of the (a,b,alpha,K,n) grid and of every auxiliary outcome with the law parameters of each draw recorded by the enumerating generator; all trees for the run-loop part",
        text="Parameters of the Beta, Bernoulli and Gamma draws inside sample() equal Escobar-West for all 756 grid points x 98 auxiliary outcomes; update_concentration_value passes K, n (outliers excluded) and the new value (down to the 1e-10 floor) is used by densities and proposals, for every tree over <=4 data points; chained histories of 2-3 updates by one sampler object.",
        note="Continuous draws over a 7-quantile alphabet; invariance of the mixture is mathematics, side-checked by quadrature.", design="4/C13"),
    "C14": dict(engine="E1 EnumRNG explorer + shadow execution", category="model_checking",
        technique="enumeration of call histories (move / alpha-change / clear sequences) x random outcomes under EnumRNG with every memoised call shadowed by the wrapped original",
        text="Every history up to length 2 (3) plus all X-change-X histories, with and without the run loop's clears: each of ~2M memoised calls equals recomputation at 1e-9 (arrays), proposal support/probabilities and cached new-clone trees; memo keys pairwise different over 320k (600k) enumerated arguments; 2600 (9000) distinct children lists in one process without clears (eviction), every call shadowed; bit-exact history independence across orderings and nearly equal lists; proposal shadows compare clone numbering and candidate order.",
        note="n=2 full enumeration, n=3 / length 3 deviation-bounded.", design="4/C14"),
    "C15": dict(engine="E3 edit-history BFS + E1 explorer", category="model_checking",
        technique="explicit-state BFS over edit histories with a serialisation bisimulation invariant; deviation-bounded exploration of the real chain driver under EnumRNG and a virtual clock",
        text="In every BFS state dict / pickle / gzip-trace restore is equal on all promised attributes and every enabled edit agrees on original and restored tree; trace entries over the run-configuration grid restore, are complete, in order, and their recomputed log_p_one under the recorded alpha equals the recorded one; the real run() (files, seeding, submission of 1-3 chains to an in-process executor in several completion orders, trace writer) over num_iters x num_particles x thin x burn-in records exactly the required schedule for every chain.",
        note="Trace part deviation-bounded (bound 0 x 4 policies, bound 1 subset).", design="4/C15"),
    "C16": dict(engine="E4 multiset enumerator + E2", category="model_checking",
        technique="exhaustive enumeration of multisets of trees x thresholds x weighting modes through the real consensus code, against support counting",
        text="1.6M (quick) cases: all multisets of <=3 trees over the 42 trees on 3 data points, <=4 (5) over the 26 without outliers, <=2 over all 243 trees on 4 data points, 3-tree multisets on 4 data points (orbit representatives quick / all 2.4M thorough), weighted sets; result is a well-formed tree whose clades are exactly the majority clades, uncovered points are outliers; end-to-end through trace file and consensus command incl. traces whose scores are all lowered by 1200 / 40000.",
        note="Cases within 1e-9 of the threshold skipped; quick n=4 triples assume equivariance under renaming data indices.", design="4/C16"),
    "C17": dict(engine="E4 input enumerator", category="model_checking",
        technique="exhaustive enumeration of all 4^6 cell-state tables x column/separator/cluster variants x row orders through load_data, against a pure-Python filter and the C05 model",
        text="Every table over 3 mutations x 2 samples with cells ok/missing/cn0/duplicated (minus the excluded families) plus tables with a cell holding a usable row and an extra zero-copy-number row, all row permutations (<=5 rows) or 8 structured orders: same result for every order, kept set, numbering, sample order, defaults, values; major<minor rejected; large multi-sample tables (up to 12 samples) incl. clustered loads compared bit for bit across row orders.",
        note="Degenerate offsetting tables must be rejected or correctly filtered.", design="4/C17"),
    "C18": dict(engine="E5 TLC pool model + subprocess replay", category="model_checking",
        technique="TLC explicit-state exploration of a TLA+ model of the process pool; every terminal state (schedule class) replayed against the implementation in fresh processes; real spawn-pool runs under varied hash seed / affinity",
        text="All 15 schedule classes for 3 chains (3 for 2): every (chain, warm-worker history) pair re-run in a fresh process through the real run() wiring and compared bit-exactly with the cold trace; every completion order through the real writer; real pool runs under 4 hash seeds x 2 affinities identical; option sets include seed 0 and outlier priors assigned from the data with a tie for the truncal cluster; warm replays under hash seeds 1,2,3,5,77,1000.",
        note="Model bound to the code by replaying every class; classes cross-checked by an independent Python enumerator. Finite set of seeds/option sets.", design="4/C18"),
    "C19": dict(engine="E1 EnumRNG explorer (deviation-bounded)", category="model_checking",
        technique="deviation-bounded exploration of the real chain driver under EnumRNG + virtual clock over the full cross-product of CLI option values",
        text="1356 option configurations (boundary values of every range): bound 0 under 4 default policies for all, bound 1 on a large subset (bound 2 for one data point, thorough): the run completes, every entry is a well-formed tree over all data with finite log_p_one; Grid D at 999/1000/1001 grid points; `phyclone run` through the real click command line in-process over every boundary value its option declarations accept.",
        note="Not exhaustive over random outcomes of a whole run; completed bounds and caps reported in evidence.", design="4/C19"),
    "C20": dict(engine="E5 in-memory device + fault injector", category="fault_enumeration",
        technique="crash-point enumeration: every byte prefix of the real writer's stream through the three readers; ENOSPC at every write-call boundary",
        text="For five traces (1, 2, 6, 9 chains, clustered) every prefix 0..len-1, plus a systematic subset of the crash points of a 1101-entry chain (about 5200 crash points x 3 readers): reader raises or output is byte-identical to the complete file's; identical output is accepted only when the prefix still holds the whole payload; ENOSPC at each of the writer's write calls makes the run fail and leaves a proper prefix; whole-run crash points of real 1-3 chain runs through a write-session device; rewrites over an existing trace (in-place writers, writers that set files aside) on a real directory.",
        note="gzip mtime fixed to 0 for a reproducible stream.", design="4/C20"),
}

NOT_YET = {}


def main():
    props = [json.loads(l) for l in open(os.path.join(HERE, "properties.jsonl"))]
    checks = []
    na = []
    for p in props:
        pid = p["id"]
        if pid in CHECKS:
            c = CHECKS[pid]
            checks.append({
                "property_id": pid,
                "quick_cmd": "./check %s --tier quick" % pid,
                "thorough_cmd": "./check %s --tier thorough" % pid,
                "evidence_file": "/verif/evidence/%s.json" % pid,
                "replay_cmd_template": "./check %s --replay {path}" % pid,
                "engine": c["engine"],
                "level_claimed": {"category": c["category"], "text": c["text"], "design_ref": c["design"]},
                "level_note": c["note"],
                "technique": c["technique"],
            })
        else:
            na.append({"property_id": pid, "reason": NOT_YET.get(pid, "check not built yet in this round (planned, see DESIGN.md section 4); not claimed until it runs")})
    man = {
        "version": 1,
        "setup_cmd": "true",
        "hooks": {
            "guard": "PHYCLONE_VERIF",
            "enable": "no source hooks are needed: every seam (rng argument, Timer, ProcessPoolExecutor, gzip/open) is reached by assignment from the harness; ./check exports PHYCLONE_VERIF=1 for uniformity",
            "baseline_off_cmd": "cd /repo && /venv/bin/python -m pytest -ra -q -p no:cacheprovider --timeout=900 --continue-on-collection-errors",
            "source_commits": [],
            "add_only": True,
        },
        "engines": [
            {"name": "E1 EnumRNG explorer", "path": "mc/enumrng.py", "serves_properties": ["C01", "C04", "C08", "C09", "C13", "C14", "C15", "C19", "C07"], "kind_free_text": "hand-written stateless explorer: numpy Generator subclass whose every draw is an enumerated choice point with exact probability; DFS with prefix replay; full or deviation-bounded"},
            {"name": "E2 state space + reference model", "path": "mc/oracle.py", "serves_properties": ["C01", "C02", "C03", "C04", "C08", "C09", "C10", "C16"], "kind_free_text": "all abstract clone trees over n data points; closed-form FS-CRP reference; literal-sum grid marginal"},
            {"name": "E3 edit-history BFS", "path": "mc/editbfs.py", "serves_properties": ["C06", "C07", "C15", "C09", "C03"], "kind_free_text": "explicit-state breadth-first search over the real Tree object with canonical-state de-duplication; every public read between edits; isolation scenarios with several live trees"},
            {"name": "E5 TLC pool model", "path": "mc/tla/ChainPool.tla", "serves_properties": ["C18"], "kind_free_text": "TLA+ model of the process pool, every path replayed against the implementation"},
            {"name": "E5 storage devices", "path": "mc/checks/c20.py", "serves_properties": ["C20"], "kind_free_text": "in-memory device logging every write call (byte-prefix and ENOSPC enumeration) and a write-session device for whole runs"},
            {"name": "E6 command-line driver", "path": "mc/clidrv.py", "serves_properties": ["C12", "C15", "C19"], "kind_free_text": "real click command line invoked in-process with the process pool replaced by an in-process executor whose completion order the harness decides; option alphabet derived from the repository's click declarations"},
        ],
        "checks": checks,
        "not_applicable": na,
        "notes": "All checks run /repo's current working tree through /venv (editable install) and prepend /repo to sys.path. Known findings: /verif/known_findings.json.",
    }
    with open(os.path.join(HERE, "MANIFEST.json"), "w") as fh:
        json.dump(man, fh, indent=1)
    print("wrote MANIFEST.json: %d checks, %d not_applicable" % (len(checks), len(na)))


if __name__ == "__main__":
    main()
