#!/usr/bin/env python3
"""Regenerates /verif/MANIFEST.json from the table below (kept in one place so it stays valid)."""
import json
import os

HERE = os.path.dirname(os.path.dirname(os.path.abspath(__file__)))

ENUM = "exhaustive enumeration of the random generator (EnumRNG) on the real sampler code"
CHECKS = {
    "C01": dict(
        engine="E1 EnumRNG explorer + E2 state space",
        category="model_checking",
        technique="stateless exhaustive exploration of every random outcome of the real sampler (exact transition matrix) + global-balance invariant",
        text="Exact transition matrix of the real ParticleGibbsTreeSampler from every start tree (n<=3 quick, n<=4 thorough; every "
             "kernel, both wirings, outliers on/off, alphas, thresholds, N<=3/4) by enumerating every outcome of every random draw; "
             "global balance against the recorded log_p_one decided at 1e-10. Exhaustive within the bounds, no sampling.",
        note="Trusted: numpy/scipy semantics of the overridden Generator methods; data values from a finite alphabet; pi is the repo's own log_p_one (C03 ties it to the model).",
        design="4/C01",
    ),
    "C04": dict(
        engine="E1 EnumRNG explorer + E2 state space",
        category="model_checking",
        technique="stateless exhaustive exploration of every random outcome of each real move (exact transition matrix) + global-balance invariant; block-conditional reversibility for the subtree move",
        text="Exact transition matrices of DataPointSampler, PruneRegraphSampler, ParticleGibbsSubtreeSampler and of one real "
             "iteration of the run loop, from every start tree (n<=3, n=4 for dp/prg), outliers on/off, alphas, data alphabet; global "
             "balance at 1e-10. The subtree move's global balance for n>=3 is a recorded known finding (fingerprinted per config); its "
             "block-conditional reversibility is checked without exception.",
        note="Trusted: as C01. Known finding F-C04-subtree-selection in known_findings.json.",
        design="4/C04",
    ),
    "C08": dict(
        engine="E1 EnumRNG explorer + E2 state space",
        category="model_checking",
        technique="exhaustive enumeration of every parent tree x placement and of every execution of sample()/SMC/conditional SMC paths under EnumRNG, against an oracle list of placements and the target/proposal identity",
        text="For every kernel x outlier proposal x permutation distribution x parent tree over <=3 (4) data points: the oracle's complete list "
             "of placements is scored (sum of reported probabilities = 1, all positive) and ALL executions of sample() reproduce exp(log_p) "
             "exactly; for every data order ALL placement paths of SMCSampler and ConditionalSMCSampler (every compatible retained tree) are "
             "enumerated and weight ratios must equal target/proposal ratios including generation 1; reachable final trees = compatible trees.",
        note="Weights are judged up to the per-generation normalisation the swarm applies (ratios between particles of one swarm). Data from a generic alphabet.",
        design="4/C08",
    ),
    "C09": dict(
        engine="E1 EnumRNG explorer + E2 state space",
        category="model_checking",
        technique="exhaustive enumeration of every shuffle outcome of RootPermutationDistribution.sample on every tree over n<=4 (5) data points vs brute-force filter of all n! orders",
        text="Exact distribution over data orders for all 427 trees over <=4 data points incl. every outlier subset (n=5 thorough), three "
             "sibling/label variants: support = brute-force compatible orders, every order has probability 1/count to 1e-12, log_pdf = -log(count).",
        note="Trusted: the brute-force linear-extension filter in mc/oracle.py.",
        design="4/C09",
    ),
}

NOT_YET = {}


def main():
    props = [json.loads(l) for l in open(os.path.join(HERE, "properties.jsonl"))]
    checks = []
    na = []
    for p in props:
        pid = p["id"]
        if pid in CHECKS:
            c = CHECKS[pid]
            checks.append({
                "property_id": pid,
                "quick_cmd": "./check %s --tier quick" % pid,
                "thorough_cmd": "./check %s --tier thorough" % pid,
                "evidence_file": "/verif/evidence/%s.json" % pid,
                "replay_cmd_template": "./check %s --replay {path}" % pid,
                "engine": c["engine"],
                "level_claimed": {"category": c["category"], "text": c["text"], "design_ref": c["design"]},
                "level_note": c["note"],
                "technique": c["technique"],
            })
        else:
            na.append({"property_id": pid, "reason": NOT_YET.get(pid, "check not built yet in this round (planned, see DESIGN.md section 4); not claimed until it runs")})
    man = {
        "version": 1,
        "setup_cmd": "true",
        "hooks": {
            "guard": "PHYCLONE_VERIF",
            "enable": "no source hooks are needed: every seam (rng argument, Timer, ProcessPoolExecutor, gzip/open) is reached by assignment from the harness; ./check exports PHYCLONE_VERIF=1 for uniformity",
            "baseline_off_cmd": "cd /repo && /venv/bin/python -m pytest -ra -q -p no:cacheprovider --timeout=900 --continue-on-collection-errors",
            "source_commits": [],
            "add_only": True,
        },
        "engines": [
            {"name": "E1 EnumRNG explorer", "path": "mc/enumrng.py", "serves_properties": ["C01", "C04", "C08", "C09", "C13", "C14", "C15", "C19", "C07"], "kind_free_text": "hand-written stateless explorer: numpy Generator subclass whose every draw is an enumerated choice point with exact probability; DFS with prefix replay; full or deviation-bounded"},
            {"name": "E2 state space + reference model", "path": "mc/oracle.py", "serves_properties": ["C01", "C02", "C03", "C04", "C08", "C09", "C10", "C16"], "kind_free_text": "all abstract clone trees over n data points; closed-form FS-CRP reference; literal-sum grid marginal"},
            {"name": "E3 edit-history BFS", "path": "mc/editbfs.py", "serves_properties": ["C06", "C07", "C15"], "kind_free_text": "explicit-state breadth-first search over the real Tree object with canonical-state de-duplication"},
            {"name": "E5 TLC pool model", "path": "mc/tla/ChainPool.tla", "serves_properties": ["C18"], "kind_free_text": "TLA+ model of the process pool, every path replayed against the implementation"},
        ],
        "checks": checks,
        "not_applicable": na,
        "notes": "All checks run /repo's current working tree through /venv (editable install) and prepend /repo to sys.path. Known findings: /verif/known_findings.json.",
    }
    with open(os.path.join(HERE, "MANIFEST.json"), "w") as fh:
        json.dump(man, fh, indent=1)
    print("wrote MANIFEST.json: %d checks, %d not_applicable" % (len(checks), len(na)))


if __name__ == "__main__":
    main()
