#!/usr/bin/env python3
"""Runs every kept seeded change against the quick checks named in its meta.json (own property first)
in scratch worktrees of /repo and records the verified result in meta.json ("verified").
usage: tools/seed_matrix.py <stream k> <n streams> [worktree]      (development aid; /repo is not touched)"""
import glob
import json
import os
import subprocess
import sys
import time

k, n = int(sys.argv[1]), int(sys.argv[2])
wt = sys.argv[3] if len(sys.argv) > 3 else "/tmp/seedwt/X%d" % (k + 1)
head = subprocess.run(["git", "-C", "/repo", "log", "--format=%h", "-1"], capture_output=True, text=True).stdout.strip()
subprocess.run(["git", "-C", wt, "checkout", "-q", "--", "."], check=True)
subprocess.run(["git", "-C", wt, "checkout", "-q", "--detach", head], check=True)
only = os.environ.get("ONLY")  # substring filter on the seed directory name, e.g. ONLY=-r5-
dirs = [d for d in sorted(glob.glob("/verif/seeded/*/")) if not only or only in d]
for i, d in enumerate(dirs):
    if i % n != k:
        continue
    meta = json.load(open(d + "meta.json"))
    checks = [meta["property"]] + [c for c in meta.get("caught_by", []) if c != meta["property"]]
    subprocess.run(["git", "-C", wt, "checkout", "-q", "--", "."], check=True)
    r = subprocess.run(["git", "-C", wt, "apply", d + "patch.diff"], capture_output=True, text=True)
    if r.returncode:
        meta["verified"] = {"error": "patch does not apply on /repo HEAD %s" % head}
    else:
        res = {}
        for c in checks:
            env = dict(os.environ, VERIF_REPO=wt, VERIF_OUT="/root/scratch/mutruns/matrix%d" % k)
            t0 = time.time()
            p = subprocess.run(["/verif/check", c], capture_output=True, text=True, env=env, cwd="/verif")
            line = [l for l in p.stdout.splitlines() if l.startswith(c + " tier=")]
            res[c] = {"exit": p.returncode, "violations": int(line[-1].split("violations=")[1]) if line else None, "wall_s": round(time.time() - t0)}
        meta["verified"] = {"repo_head": head, "tier": "quick", "results": res, "caught_by": [c for c, v in res.items() if v["exit"] == 1]}
    json.dump(meta, open(d + "meta.json", "w"), indent=1)
    print(os.path.basename(d.rstrip("/")), meta["verified"].get("caught_by"), flush=True)
    subprocess.run(["git", "-C", wt, "checkout", "-q", "--", "."], check=True)
