#!/bin/bash
# usage: tools/try_patch.sh <patch.diff> <check ids...> : like try_seed.sh but for an arbitrary patch, in scratch worktree /tmp/seedwt/X1
p=$(readlink -f $1); shift; wt=${WT:-/tmp/seedwt/X4}
cd $wt && git checkout -q -- . && git apply $p || { echo "patch does not apply"; exit 3; }
cd /verif
for id in "$@"; do
  echo "== $(basename $p) vs check $id"
  VERIF_REPO=$wt VERIF_OUT=/root/scratch/mutruns/X1 ./check $id 2>&1 | grep -E "^$id tier=|violation:|HARNESS|KNOWN" | head -${LINES_SHOWN:-3} | cut -c1-500
done
cd $wt && git checkout -q -- .
