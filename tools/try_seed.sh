#!/bin/bash
# usage: tools/try_seed.sh <PID> [check ids...] : applies the seed patch in the seed's OWN scratch worktree and runs the
# checks against that worktree (VERIF_REPO), evidence/replays redirected; /repo is not touched.
pid=$1; shift; ids=${@:-$pid}; wt=/tmp/seedwt/$pid; sd=$wt/SEED; [ -d /verif/seeded/$pid ] && sd=/verif/seeded/$pid
[ -n "$SEEDDIR" ] && sd=$SEEDDIR
cd $wt && git checkout -q -- . && git apply $sd/patch.diff || { echo "patch does not apply"; exit 3; }
cd /verif
for id in $ids; do
  echo "== $pid patch vs check $id"
  VERIF_REPO=$wt VERIF_OUT=/root/scratch/mutruns/$pid ./check $id 2>&1 | grep -E "^$id tier=|violation:|^VIOLATION|HARNESS|KNOWN" | head -4 | cut -c1-500
done
cd $wt && git checkout -q -- .
