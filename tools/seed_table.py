#!/usr/bin/env python3
"""Prints the markdown table of kept seeded changes (from seeded/*/meta.json) for DESIGN.md."""
import glob, json, os
print("| seeded change | property | needs to manifest | caught by (quick tier, verified) |")
print("|---|---|---|---|")
for d in sorted(glob.glob("/verif/seeded/*/")):
    m = json.load(open(d + "meta.json"))
    v = m.get("verified", {})
    cb = ", ".join(v.get("caught_by", [])) if v else "(not yet re-verified) " + ", ".join(m.get("caught_by", []))
    needs = m["needs_to_manifest"].replace("|", "/")
    print("| `%s` | %s | %s | %s |" % (os.path.basename(d.rstrip("/")), m["property"], needs, cb))
