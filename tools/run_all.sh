#!/bin/bash
# usage: tools/run_all.sh [quick|thorough] [ids...]  -> one summary line per check
tier=${1:-quick}; shift
ids=${@:-C01 C02 C03 C04 C05 C06 C07 C08 C09 C10 C11 C12 C13 C14 C15 C16 C17 C18 C19 C20}
cd "$(dirname "$(readlink -f "$0")")/.."
for id in $ids; do
  out=$(./check $id --tier $tier 2>&1); rc=$?
  echo "rc=$rc $(echo "$out" | grep -E "^$id tier=" | tail -1) $(echo "$out" | grep -c '^VIOLATION') viol-lines $(echo "$out" | grep -c '^KNOWN-FINDING') known"
  [ $rc -ne 0 ] && echo "$out" | grep -E "violation:|HARNESS|Error" | head -3 | cut -c1-400
done
