#!/usr/bin/env python3
"""Own mutation campaign (development aid, not a registered check): applies small hand-written
mutants to a scratch worktree of /repo and runs the named quick checks against it (VERIF_REPO).
usage: tools/mutation_campaign.py <worktree> <stream index> <n streams> [--list]
Results are appended to /root/scratch/mutation_campaign.log"""
import json
import os
import subprocess
import sys

M = [
    # (id, file, old, new, checks)
    ("tree-copy-shallow-data", "phyclone/tree/tree.py", "new._data.update({k: v.copy() for k, v in self._data.items()})\n\n        new._log_prior", "new._data.update(dict(self._data))\n\n        new._log_prior", ["C06", "C07"]),
    ("relabel-keeps-old-rev-map", "phyclone/tree/tree.py", "        self._node_indices_rev = visitor.node_indices_rev\n", "", ["C07"]),
    ("get-subtree-shares-lists", "phyclone/tree/tree.py", "new._data[node] = list(self._data[node])", "new._data[node] = self._data[node]", ["C07", "C06", "C15"]),
    ("remove-subtree-keeps-rev", "phyclone/tree/tree.py", "                    del self._node_indices_rev[curr_idx]\n", "", ["C07"]),
    ("graft-label-ignores-subtree-names", "phyclone/tree/tree.py", "first_label = max(self.nodes + subtree.nodes + [-1])", "first_label = max(self.nodes + [-1])", ["C07", "C06"]),
    ("create-root-no-last-added", "phyclone/tree/tree.py", "        self._last_node_added_to = node\n\n        self._update_path_to_root(node)", "        self._update_path_to_root(node)", ["C08", "C15", "C01"]),
    ("from-dict-drops-last-added", "phyclone/tree/tree.py", 'new._last_node_added_to = tree_dict["node_last_added_to"]', "new._last_node_added_to = None", ["C15", "C01"]),
    ("add-list-no-logr", "phyclone/tree/tree_node.py", "            log_p += data_point.value\n            log_r += data_point.value", "            log_p += data_point.value", ["C06", "C02"]),
    ("logpone-subtree-term", "phyclone/tree/distributions.py", "num_sub_trees = (curr_num_nodes - 1) * np.log(curr_num_nodes)", "num_sub_trees = curr_num_nodes * np.log(curr_num_nodes)", ["C03"]),
    ("outlier-prior-skip-not", "phyclone/tree/distributions.py", "                        log_p += data_point.outlier_prob_not", "                        pass", ["C03", "C01"]),
    ("interleave-no-shuffle", "phyclone/smc/utils.py", "    rng.shuffle(sentinels)\n", "", ["C09"]),
    ("perm-no-source-shuffle", "phyclone/smc/utils.py", "            rng.shuffle(source_sigma)\n", "", ["C09"]),
    ("csmc-update-includes-slot0", "phyclone/smc/samplers/conditional.py", "zip(self.swarm.log_weights[1:], self.swarm.particles[1:])", "zip(self.swarm.log_weights[0:], self.swarm.particles[0:])", ["C01", "C08"]),
    ("subtree-correct-uses-logp", "phyclone/mcmc/particle_gibbs.py", "            w -= p.log_p_one\n", "            w -= p.log_p\n", ["C04"]),
    ("subtree-drops-outliers", "phyclone/mcmc/particle_gibbs.py", "            for data_point in subtree.outliers:\n                new_tree.add_data_point_to_outliers(data_point)\n", "", ["C04", "C07"]),
    ("dp-uses-marginal", "phyclone/mcmc/gibbs_mh.py", "log_q = np.array([self.tree_dist.log_p_one(x) for x in new_trees])", "log_q = np.array([self.tree_dist.log_p(x) for x in new_trees])", ["C04"]),
    ("prg-no-root-option", "phyclone/mcmc/gibbs_mh.py", "        remaining_nodes.append(None)\n", "", ["C04"]),
    ("thin-off-by-one", "phyclone/run.py", "            if i % thin == 0:\n                append_to_trace", "            if (i + 1) % thin == 0:\n                append_to_trace", ["C15"]),
    ("record-before-conc-update", "phyclone/run.py", "            if concentration_update:\n                update_concentration_value(conc_sampler, tree, tree_dist)\n\n            if i % thin == 0:\n                append_to_trace(i, timer, trace, tree, tree_dist)\n", "            if i % thin == 0:\n                append_to_trace(i, timer, trace, tree, tree_dist)\n\n            if concentration_update:\n                update_concentration_value(conc_sampler, tree, tree_dist)\n", ["C15", "C13"]),
    ("trace-alpha-stale", "phyclone/run.py", '            "alpha": tree_dist.prior.alpha,\n', '            "alpha": getattr(tree_dist, "_a0", tree_dist.prior.alpha),\n', ["C15"]),
    ("labels-table-no-outliers", "phyclone/process_trace/process_trace.py", '                df_records_list.append({"mutation_id": x.name, "clone_id": outlier_node_name})', "                pass", ["C12"]),
    ("cn-zero-kept", "phyclone/data/pyclone.py", 'df = df.loc[df["major_cn"] > 0]', 'df = df.loc[df["major_cn"] >= 0]', ["C17"]),
    ("samples-unsorted", "phyclone/data/pyclone.py", 'samples = sorted(df["sample_id"].unique())', 'samples = list(df["sample_id"].unique())', ["C17"]),
    ("mutations-unsorted", "phyclone/data/pyclone.py", '    df = df.sort_values(by="mutation_id", ascending=True)\n', "", ["C17"]),
    ("error-rate-default", "phyclone/data/pyclone.py", 'df.loc[:, "error_rate"] = 1e-3', 'df.loc[:, "error_rate"] = 1e-2', ["C17"]),
    ("fully-adapted-misses-all-roots", "phyclone/smc/kernels/fully_adapted.py", "for r in range(0, num_roots + 1):", "for r in range(0, max(num_roots, 1)):", ["C08", "C01"]),
    ("semi-new-node-never-all-roots", "phyclone/smc/kernels/semi_adapted.py", "num_children = self._rng.integers(0, num_roots + 1)", "num_children = self._rng.integers(0, max(num_roots, 1))", ["C08", "C01"]),
    ("bootstrap-logp-no-binomial", "phyclone/smc/kernels/bootstrap.py", "log_p -= np.log(old_num_roots + 1) + log_binomial_coefficient(old_num_roots, num_children)", "log_p -= np.log(old_num_roots + 1)", ["C08", "C01"]),
    ("kernel-weight-drops-parent-pdf", "phyclone/smc/kernels/base.py", "log_w = particle.log_p - parent_particle.log_p + particle.log_pdf - parent_particle.log_pdf - log_q", "log_w = particle.log_p - parent_particle.log_p + particle.log_pdf - log_q", ["C08", "C01"]),
    ("final-correction-dropped", "phyclone/smc/samplers/base.py", "return particle.log_w - particle.log_p + particle.log_p_one", "return particle.log_w", ["C01", "C08"]),
    ("pg-select-uniform", "phyclone/mcmc/particle_gibbs.py", "particle_idx = discrete_rvs(swarm.weights, self._rng)", "particle_idx = int(self._rng.integers(0, len(swarm.particles)))", ["C01"]),
    ("map-traceback-first-child", "phyclone/process_trace/map.py", "child_total_idx[d] -= graph.nodes[child][\"max_idx\"][d]", "child_total_idx[d] -= 0", ["C10"]),
    ("consensus-threshold-on-counts", "phyclone/process_trace/consensus.py", "clades_counter[clade] = clades_counter[clade] / len(trees)", "clades_counter[clade] = clades_counter[clade] / max(len(trees) - 1, 1)", ["C16"]),
    ("consensus-superset-largest", "phyclone/process_trace/consensus.py", "if candidate_superset_size < smallest_superset_size:", "if candidate_superset_size > smallest_superset_size or smallest_superset is None:", ["C16"]),
    ("topology-count-off", "phyclone/process_trace/process_trace.py", '        topology["count"] += 1\n', '        topology["count"] += (1 if i else 0)\n', ["C11"]),
    ("archive-rank-off-by-one", "phyclone/process_trace/process_trace.py", "if topology_rank >= top_trees:", "if topology_rank > top_trees:", ["C11"]),
    ("conc-rate-plus", "phyclone/mcmc/concentration.py", "rate = b - np.log(eta)", "rate = b + np.log(eta)", ["C13"]),
    ("conc-mixture-weight", "phyclone/mcmc/concentration.py", "x = shape / (n * rate)", "x = shape / rate", ["C13"]),
    ("seed-ignored-in-chain", "phyclone/run.py", "        rng_list = rng_main.spawn(num_chains)\n", "        rng_list = [np.random.default_rng() for _ in range(num_chains)]\n", ["C18"]),
    ("perm-outliers-from-set", "phyclone/smc/utils.py", "outliers = list(tree.outliers)", "outliers = list(set(tree.outliers))", ["C18", "C09"]),
    ("gz-reader-tolerant", "phyclone/process_trace/process_trace.py", "    with gzip.GzipFile(in_file, \"rb\") as fh:\n        results = pickle.load(fh)\n\n    print(\"\\nExtracting", "    import zlib\n    raw = open(in_file, \"rb\").read()\n    results = pickle.loads(zlib.decompressobj(31).decompress(raw))\n\n    print(\"\\nExtracting", ["C20"]),
    ("pyclone-vaf-min", "phyclone/data/pyclone.py", "mu.append((error_rate, error_rate, min(1 - error_rate, x / total_cn)))", "mu.append((error_rate, error_rate, max(error_rate, x / total_cn)))", ["C05"]),
    ("betabinom-precision", "phyclone/data/pyclone.py", "        b = s - a\n\n        ll[c] = data.log_pi[c] + log_beta_binomial_pdf", "        b = s * (1 - e_vaf) + 1e-3\n\n        ll[c] = data.log_pi[c] + log_beta_binomial_pdf", ["C05"]),
    ("cluster-outlier-size", "phyclone/data/pyclone.py", "res_not = np.log1p(-outlier_prob) * cluster_size", "res_not = np.log1p(-outlier_prob)", ["C05"]),
]


def main():
    wt = sys.argv[1]
    k, n = int(sys.argv[2]), int(sys.argv[3])
    if "--list" in sys.argv:
        print(len(M))
        return
    log = "/root/scratch/mutation_campaign.log"
    for i, (mid, f, old, new, checks) in enumerate(M):
        if i % n != k:
            continue
        subprocess.run(["git", "-C", wt, "checkout", "-q", "--", "."], check=True)
        p = os.path.join(wt, f)
        s = open(p).read()
        if old not in s:
            open(log, "a").write(json.dumps({"mutant": mid, "error": "pattern not found"}) + "\n")
            continue
        open(p, "w").write(s.replace(old, new, 1))
        res = {}
        for c in checks:
            env = dict(os.environ, VERIF_REPO=wt, VERIF_OUT="/root/scratch/mutruns/camp%d" % k)
            r = subprocess.run(["/verif/check", c], capture_output=True, text=True, env=env, cwd="/verif")
            line = [l for l in r.stdout.splitlines() if l.startswith(c + " tier=")]
            res[c] = {"rc": r.returncode, "violations": int(line[-1].split("violations=")[1]) if line else None,
                      "harness_error": "HARNESS-ERROR" in r.stdout}
            if r.returncode == 1:
                break  # detected
        open(log, "a").write(json.dumps({"mutant": mid, "results": res, "detected": any(v["rc"] == 1 for v in res.values())}) + "\n")
        subprocess.run(["git", "-C", wt, "checkout", "-q", "--", "."], check=True)


if __name__ == "__main__":
    main()
