#!/bin/bash
# usage: tools/validate_seed.sh <PID> [seeddir] [result key] : validates a sub-agent's seeded change in its scratch worktree
pid=$1; wt=/tmp/seedwt/$pid; sd=${2:-$wt/SEED}; key=${3:-$pid}; out=/root/scratch/seedval/$key; mkdir -p $out
cd $wt || exit 9
git checkout -q -- . ; git status --short | grep -v '^??' && { echo "worktree dirty"; exit 9; }
echo "== demo on clean tree"; timeout 1200 /venv/bin/python $sd/demo.py > $out/demo_clean.log 2>&1; echo "exit=$?" | tee $out/demo_clean.rc
git apply $sd/patch.diff || { echo "patch does not apply"; exit 9; }
echo "== demo with patch"; timeout 1200 /venv/bin/python $sd/demo.py > $out/demo_patched.log 2>&1; echo "exit=$?" | tee $out/demo_patched.rc
echo "== test suite with patch"; /venv/bin/python -m pytest -q -p no:cacheprovider --timeout=900 --continue-on-collection-errors phyclone/tests > $out/tests.log 2>&1; tail -1 $out/tests.log | tee $out/tests.summary
git checkout -q -- .
