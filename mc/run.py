"""Entry point: python -m mc.run <ID> [--tier quick|thorough] [--replay file]"""
import argparse
import importlib
import os
import sys
import traceback


def main():
    ap = argparse.ArgumentParser()
    ap.add_argument("pid")
    ap.add_argument("--tier", default=os.environ.get("VERIF_TIER", "quick"), choices=["quick", "thorough"])
    ap.add_argument("--replay", default=None)
    args = ap.parse_args()
    try:
        seed = int(os.environ.get("VERIF_SEED", "0"))
    except ValueError:
        seed = 0
    pid = args.pid.upper()
    # the current working tree of the repository, whatever the install mode; VERIF_REPO lets the
    # same checks run against a scratch worktree (used when trying seeded changes) - default /repo
    repo = os.environ.get("VERIF_REPO", "/repo")
    sys.path.insert(0, repo)
    os.environ["PYTHONPATH"] = repo + (os.pathsep + os.environ["PYTHONPATH"] if os.environ.get("PYTHONPATH") else "")
    import phyclone

    if not os.path.abspath(phyclone.__file__).startswith(os.path.abspath(repo) + os.sep):
        print("HARNESS-ERROR property=%s phyclone imported from %s, expected under %s" % (pid, phyclone.__file__, repo))
        sys.exit(2)
    # import everything first (scipy draws example values while building its docs), then forbid
    import phyclone.run  # noqa: F401
    import phyclone.process_trace  # noqa: F401
    import scipy.stats  # noqa: F401
    from mc.enumrng import forbid_global_randomness

    forbid_global_randomness()
    mod = importlib.import_module("mc.checks.%s" % pid.lower())
    if args.replay:
        sys.exit(mod.replay(args.replay))
    # watchdog: a check that runs away (e.g. a changed tree that makes an execution space explode) is stopped and
    # reported as a harness time-out rather than hanging
    import signal

    limit = int(os.environ.get("VERIF_TIME_LIMIT", "2400" if args.tier == "quick" else "28800"))

    def on_alarm(signum, frame):
        raise TimeoutError("check %s exceeded its time limit of %d s" % (pid, limit))

    signal.signal(signal.SIGALRM, on_alarm)
    signal.alarm(limit)
    try:
        rc = mod.main(args.tier, seed)
    except SystemExit:
        raise
    except BaseException as exc:
        traceback.print_exc()
        from mc.harness import CURRENT, Check, RepoCrash, touches_repo

        if isinstance(exc, RepoCrash) or (isinstance(exc, Exception) and touches_repo(exc.__traceback__)):
            # an exception escaped from the repository's own code on an input the check drives it with:
            # that is a failure of the code under test, reported with its trace
            chk = CURRENT[0] if CURRENT else Check(pid, args.tier, seed)
            what = str(exc) if isinstance(exc, RepoCrash) else "%s: %s | %s" % (type(exc).__name__, str(exc)[:200], "".join(traceback.format_tb(exc.__traceback__)[-4:])[-900:])
            chk.violation({"sub": "uncaught-exception-in-repository-code", "what": what.split("|")[0][:80]}, {"trace": what}, {"trace": what})
            sys.exit(chk.finish())

        found = [c for c in CURRENT if c.violations]
        if found:
            # violations of the property were already established before the harness tripped: report them
            print("note: the harness failed after violations had been recorded; reporting those")
            sys.exit(found[0].finish())
        # a crash of the harness itself is reported as such, not as a property violation
        print("HARNESS-ERROR property=%s" % pid)
        sys.exit(2)
    sys.exit(rc)


if __name__ == "__main__":
    main()
