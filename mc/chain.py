"""Driving the real chain driver (phyclone.run.run_phyclone_chain) under the enumerating
generator and a virtual clock.  Shared by C14, C15, C19."""
import contextlib
import io

from mc import oracle
from mc.virtual import VirtualTimer

DEFAULTS = dict(
    n=2, dims=1, grid=3, data="generic", outlier_prob=0.0, proposal="semi-adapted", N=2, threshold=0.5, subtree_prob=0.0,
    iters=2, thin=1, burnin=1, max_time=float("inf"), clock_step=0.0, conc_update=False, conc_value=1.0, n_dp=1, n_prg=1, seed=0,
)


def _call_by_name(fn, values):
    """Call a driver function of the repository by parameter NAME (positions and extra defaulted parameters may change)."""
    import inspect

    params = inspect.signature(fn).parameters
    kwargs = {k: v for k, v in values.items() if k in params}
    missing = [k for k, p_ in params.items() if k not in kwargs and p_.default is inspect.Parameter.empty and p_.kind in (p_.POSITIONAL_OR_KEYWORD, p_.KEYWORD_ONLY)]
    if missing:
        raise RuntimeError("harness: %s has parameters the harness does not know how to fill: %r" % (fn.__name__, missing))
    return fn(**kwargs)


def full(cfg):
    c = dict(DEFAULTS)
    c.update(cfg)
    return c


def chain_data(cfg):
    c = full(cfg)
    data = oracle.make_data(c["n"], dims=c["dims"], grid=c["grid"], kind=c["data"], seed=c["seed"], outlier_prob=0.0)
    # outlier prior terms exactly as load_data computes them (incl. the boundary value 1.0)
    import numpy as np
    from phyclone.data.pyclone import compute_outlier_prob

    with np.errstate(divide="ignore"):
        for d in data:
            d.outlier_prob, d.outlier_prob_not = compute_outlier_prob(c["outlier_prob"], 1)
    return data


def run_chain(cfg, rng, record=None):
    """One real chain.  `record` (dict) receives the tree _run_burnin returned."""
    import phyclone.run as prun

    c = full(cfg)
    data = chain_data(c)
    samples = ["S%d" % i for i in range(c["dims"])]
    timers = []

    def timer_factory(*a, **k):
        t = VirtualTimer(step=c["clock_step"])
        timers.append(t)
        return t

    old_timer = prun.Timer
    old_burnin = prun._run_burnin
    prun.Timer = timer_factory

    def burnin_spy(*a, **k):
        tree = old_burnin(*a, **k)
        if record is not None:
            record["burnin_tree"] = tree.copy()
        return tree

    prun._run_burnin = burnin_spy
    try:
        with contextlib.redirect_stdout(io.StringIO()):
            res = _call_by_name(prun.run_phyclone_chain, dict(
                burnin=c["burnin"], concentration_update=c["conc_update"], concentration_value=c["conc_value"], data=data, max_time=c["max_time"],
                num_iters=c["iters"], num_particles=c["N"], num_samples_data_point=c["n_dp"], num_samples_prune_regraph=c["n_prg"],
                outlier_prob=c["outlier_prob"], print_freq=100, proposal=c["proposal"], resample_threshold=c["threshold"], rng=rng, samples=samples,
                thin=c["thin"], chain_num=0, subtree_update_prob=c["subtree_prob"]))
    finally:
        prun.Timer = old_timer
        prun._run_burnin = old_burnin
    if record is not None:
        record["timer_blocks"] = timers[0].blocks if timers else None
    return res, data


def expected_iters(cfg):
    """Reference model of the run loop's recording schedule under the virtual clock."""
    c = full(cfg)
    elapsed = 0.0
    # the clock advances when a timed block is left; the limit is tested inside the block
    for _ in range(c["burnin"]):
        stop = elapsed > c["max_time"]
        elapsed += c["clock_step"]
        if stop:
            break
    out = []
    for i in range(c["iters"]):
        if i % c["thin"] == 0:
            out.append(i)
        stop = elapsed >= c["max_time"]
        elapsed += c["clock_step"]
        if stop:
            break
    return out


def run_main_from(cfg, rng, start_state):
    """The real main loop (_run_main_sampler) started from an arbitrary tree a burn-in could have
    produced ("start from non-initial states"): returns (results, data)."""
    import phyclone.run as prun
    from phyclone.tree import FSCRPDistribution, TreeJointDistribution

    c = full(cfg)
    data = chain_data(c)
    samples = ["S%d" % i for i in range(c["dims"])]
    tree_dist = TreeJointDistribution(FSCRPDistribution(c["conc_value"]))
    kernel = prun.setup_kernel(c["outlier_prob"], c["proposal"], rng, tree_dist)
    samplers = prun.setup_samplers(kernel, c["N"], c["outlier_prob"], c["threshold"], rng, tree_dist)
    tree = oracle.build(start_state, data)
    tree.relabel_nodes()
    timer = VirtualTimer(step=c["clock_step"])
    with contextlib.redirect_stdout(io.StringIO()):
        res = _call_by_name(prun._run_main_sampler, dict(
            concentration_update=c["conc_update"], data=data, max_time=c["max_time"], num_iters=c["iters"], num_samples_data_point=c["n_dp"],
            num_samples_prune_regraph=c["n_prg"], print_freq=100, samplers=samplers, samples=samples, thin=c["thin"], timer=timer, tree=tree,
            tree_dist=tree_dist, chain_num=0, rng=rng, subtree_update_prob=c["subtree_prob"]))
    if isinstance(res, list):  # a driver that hands back the bare trace
        res = {"trace": res}
    return res, data


def run_wired(run_args, completion_order=None):
    """The real phyclone.run.run() - data loading, seeding, chain submission, collection, trace writer - with the process
    pool replaced by an executor that computes the submitted chains in this process (in the given completion order).
    Returns the result dictionary read back from the trace file the run wrote."""
    import gzip
    import os
    import pickle
    import shutil
    import tempfile
    import phyclone.run as prun

    class Fut(object):
        def __init__(self, fn, args, kwargs):
            self.fn, self.args, self.kwargs, self._res, self._done = fn, args, kwargs, None, False

        def result(self):
            if not self._done:
                self._res, self._done = self.fn(*self.args, **self.kwargs), True
            return self._res

        def exception(self):
            return None

    class Exec(object):
        def __init__(self, *a, **k):
            pass

        def __enter__(self):
            return self

        def __exit__(self, *a):
            return False

        def submit(self, fn, *args, **kwargs):
            return Fut(fn, args, kwargs)

    def as_completed(futs):
        futs = list(futs)
        order = completion_order if completion_order is not None else range(len(futs))
        for c in order:
            futs[c].result()
            yield futs[c]

    old = prun.ProcessPoolExecutor, prun.as_completed
    prun.ProcessPoolExecutor, prun.as_completed = Exec, as_completed
    d = tempfile.mkdtemp(prefix="wired_", dir="/dev/shm" if os.path.isdir("/dev/shm") else None)
    try:
        path = os.path.join(d, "t.pkl.gz")
        with contextlib.redirect_stdout(io.StringIO()):
            prun.run(out_file=path, **run_args)
        with gzip.GzipFile(path, "rb") as fh:
            return pickle.load(fh)
    finally:
        prun.ProcessPoolExecutor, prun.as_completed = old
        shutil.rmtree(d, ignore_errors=True)
