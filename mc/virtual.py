"""Virtual clock: stands in for phyclone.utils.Timer so no wall-clock time leaks into a run."""


class VirtualTimer(object):
    """Each `with timer:` block adds `step` seconds (0 by default; inf to trip the time limit)."""

    def __init__(self, step=0.0, steps=None):
        self.elapsed = 0.0
        self._step = step
        self._steps = list(steps) if steps is not None else None
        self.blocks = 0

    def __enter__(self):
        return self

    def __exit__(self, *a):
        st = self._step
        if self._steps is not None and self.blocks < len(self._steps):
            st = self._steps[self.blocks]
        self.blocks += 1
        self.elapsed += st

    def reset(self):
        self.elapsed = 0.0
