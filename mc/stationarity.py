"""Exact transition matrices of the real sampler moves (C01, C04) by full enumeration of the
random generator, and the global-balance oracle.

A *config* is a plain dict (picklable).  A *root* is (config, index of the start state).
"""
import io
import contextlib
import math
import traceback

import numpy as np

from mc import oracle
from mc.enumrng import explore, EnumRNG

KERNELS = {"bootstrap": "BootstrapKernel", "semi-adapted": "SemiAdaptedKernel", "fully-adapted": "FullyAdaptedKernel"}


def clear_caches(all_caches=False):
    from phyclone.utils.dev import clear_proposal_dist_caches

    clear_proposal_dist_caches()
    if all_caches:
        from phyclone.tree.utils import compute_log_S, _convolve_two_children

        compute_log_S.cache_clear()
        _convolve_two_children.cache_clear()


def config_data(cfg):
    return oracle.make_data(
        cfg["n"], dims=cfg.get("dims", 1), grid=cfg.get("grid", 4), kind=cfg.get("data", "generic"),
        seed=cfg.get("seed", 0), outlier_prob=cfg.get("outlier_prior", 0.0), het=cfg.get("het", False),
    )


def config_states(cfg):
    return oracle.all_states(cfg["n"], outliers=cfg.get("outlier_prior", 0.0) > 0)


def make_tree_dist(cfg):
    from phyclone.tree import FSCRPDistribution, TreeJointDistribution

    return TreeJointDistribution(FSCRPDistribution(cfg.get("alpha", 1.0)))


def make_kernel(cfg, rng, tree_dist):
    """Kernel as the library builds it ('library') or as the run command wires it ('run')."""
    import phyclone.smc.kernels as K
    from phyclone.smc.utils import RootPermutationDistribution

    op = cfg.get("outlier_prior", 0.0)
    if cfg.get("wiring", "library") == "run":
        import phyclone.run as prun

        return prun.setup_kernel(op, cfg["kernel"], rng, tree_dist)
    cls = getattr(K, KERNELS[cfg["kernel"]])
    return cls(tree_dist, rng, outlier_proposal_prob=(0.1 if op > 0 else 0.0), perm_dist=RootPermutationDistribution())


def make_samplers(cfg, rng, tree_dist):
    import phyclone.run as prun

    kernel = make_kernel(cfg, rng, tree_dist)
    return prun.setup_samplers(kernel, cfg.get("N", 2), cfg.get("outlier_prior", 0.0), cfg.get("threshold", 0.5), rng, tree_dist)


def samplers_after_burnin(cfg, rng, tree_dist):
    """The sampler set of the run loop AFTER it was used for burn-in: setup_samplers hands one kernel object to the burn-in,
    tree and subtree samplers, and the run performs burn-in passes before the first update.  The burn-in pass here draws from
    a seeded generator of its own (its outcomes are not part of the move under test)."""
    import numpy as np
    from phyclone.tree import Tree

    samplers = make_samplers(cfg, rng, tree_dist)
    wrng = np.random.default_rng(23)
    objs = [o for o in (samplers.burnin_sampler, getattr(samplers.burnin_sampler, "kernel", None), getattr(samplers.tree_sampler, "kernel", None)) if o is not None]
    saved = [(o, o._rng) for o in objs if hasattr(o, "_rng")]
    for o, _ in saved:
        o._rng = wrng
    try:
        t = Tree.get_single_node_tree(config_data(cfg))
        for _ in range(2):
            t = samplers.burnin_sampler.sample_tree(t)
    finally:
        for o, r in saved:
            o._rng = r
    # the run loop clears the proposal memos before every SMC move; here it is also needed for the harness itself: proposal
    # objects memoised during the warm-up keep the warm-up's generator and would draw outside the enumeration
    from phyclone.utils.dev import clear_proposal_dist_caches

    clear_proposal_dist_caches()
    return samplers


def apply_move(cfg, rng, tree, tree_dist):
    """One application of the move under test; returns the new real Tree."""
    move = cfg["move"]
    if cfg.get("after_burnin") and move in ("pg", "subtree"):
        smp = samplers_after_burnin(cfg, rng, tree_dist)
        return (smp.tree_sampler if move == "pg" else smp.subtree_sampler).sample_tree(tree)
    if move == "pg":
        if cfg.get("wiring", "library") == "run":
            return make_samplers(cfg, rng, tree_dist).tree_sampler.sample_tree(tree)
        from phyclone.mcmc import ParticleGibbsTreeSampler

        kernel = make_kernel(cfg, rng, tree_dist)
        if cfg.get("warm_other_alpha"):
            # library use across a concentration change: the SAME kernel object first makes updates under another
            # alpha (filling every memo), then alpha is assigned in place; nothing is cleared in between
            import numpy as np
            from phyclone.tree import Tree

            alpha = tree_dist.prior.alpha
            tree_dist.prior.alpha = cfg["warm_other_alpha"]
            wrng = np.random.default_rng(17)
            kernel._rng = wrng
            warm = ParticleGibbsTreeSampler(kernel, wrng, num_particles=4, resample_threshold=0.5)
            wt = Tree.get_single_node_tree(config_data(cfg))
            for _ in range(4):
                wt = warm.sample_tree(wt)
            tree_dist.prior.alpha = alpha
            kernel._rng = rng
        return ParticleGibbsTreeSampler(kernel, rng, num_particles=cfg.get("N", 2), resample_threshold=cfg.get("threshold", 0.5)).sample_tree(tree)
    if move == "dp":
        from phyclone.mcmc import DataPointSampler

        if cfg.get("wiring", "library") == "run":
            return make_samplers(cfg, rng, tree_dist).dp_sampler.sample_tree(tree)
        return DataPointSampler(tree_dist, rng, outliers=cfg.get("outlier_prior", 0.0) > 0).sample_tree(tree)
    if move == "prg":
        from phyclone.mcmc import PruneRegraphSampler

        return PruneRegraphSampler(tree_dist, rng).sample_tree(tree)
    if move == "subtree":
        if cfg.get("wiring", "library") == "run":
            return make_samplers(cfg, rng, tree_dist).subtree_sampler.sample_tree(tree)
        from phyclone.mcmc import ParticleGibbsSubtreeSampler

        kernel = make_kernel(cfg, rng, tree_dist)
        return ParticleGibbsSubtreeSampler(kernel, rng, num_particles=cfg.get("N", 2), resample_threshold=cfg.get("threshold", 0.5)).sample_tree(tree)
    if move == "sweep":
        # one real iteration of the run loop (concentration update off)
        import phyclone.run as prun
        from mc.virtual import VirtualTimer

        samplers = make_samplers(cfg, rng, tree_dist)
        from mc.chain import _call_by_name

        with contextlib.redirect_stdout(io.StringIO()):
            res = _call_by_name(prun._run_main_sampler, dict(
                concentration_update=False, data=None, max_time=float("inf"), num_iters=1, num_samples_data_point=cfg.get("n_dp", 1),
                num_samples_prune_regraph=cfg.get("n_prg", 1), print_freq=100, samplers=samplers, samples=["S"], thin=1, timer=VirtualTimer(), tree=tree,
                tree_dist=tree_dist, chain_num=0, rng=rng, subtree_update_prob=cfg.get("subtree_prob", 0.0)))
        from phyclone.tree import Tree

        trace = res if isinstance(res, list) else res["trace"]
        return Tree.from_dict(trace[-1]["tree"])
    raise ValueError(move)


def wellformed_problems(tree, data_idxs):
    """C07 invariant, evaluated on every execution result."""
    from mc.invariants import wellformed

    return wellformed(tree, data_idxs)


_SWARM_SPY = {"installed": False, "last": None}


def install_swarm_spy():
    """Records the final swarm the particle-Gibbs samplers select from (class-level wrapper; the samplers use __slots__)."""
    if _SWARM_SPY["installed"]:
        return
    _SWARM_SPY["installed"] = True
    from phyclone.mcmc.particle_gibbs import ParticleGibbsTreeSampler

    orig = ParticleGibbsTreeSampler._sample_tree_from_swarm

    def spy(self, swarm):
        _SWARM_SPY["last"] = (len(swarm.particles), self.num_particles, swarm.particles[0] if swarm.particles else None)
        return orig(self, swarm)

    ParticleGibbsTreeSampler._sample_tree_from_swarm = spy


def compute_row(root):
    """All executions of the move from one start state -> exact row of the transition matrix."""
    cfg, si = root
    install_swarm_spy()
    data = config_data(cfg)
    states = config_states(cfg)
    s = states[si]
    tree_dist = make_tree_dist(cfg)
    idxs = set(range(cfg["n"]))
    problems = []
    first_choices = {}

    def run(rng):
        clear_caches()
        tree = oracle.build(s, data)
        if cfg.get("regrafted_start"):
            # the same tree assembled by grafts from the top down (as repeated subtree / prune-regraft moves can leave it): the
            # graph library numbers clones in the order they are attached, so here parents sit at lower positions than their
            # children - the reverse of a bottom-up build
            from phyclone.tree import Tree

            ch = oracle.children_map(s)
            dmap = {d.idx: d for d in data}
            top = Tree(data[0].grid_size)

            def attach(block, parent_name):
                one = Tree(data[0].grid_size)
                one.create_root_node(children=[], data=[dmap[i] for i in sorted(block)])
                top.add_subtree(one, parent=parent_name)
                name = [nm for nm in top.nodes if {d.idx for d in top._data[nm]} == set(block)][0]
                for c in sorted(ch.get(block, []), key=sorted):
                    attach(c, name)

            for r in sorted(ch.get(None, []), key=sorted):
                attach(r, None)
            for i in sorted(s[1]):
                top.add_data_point_to_outliers(dmap[i])
            top.update()
            if oracle.abstract(top) != s:
                raise RuntimeError("harness: top-down build does not reproduce the state")
            tree = top
        try:
            new = apply_move(cfg, rng, tree, tree_dist)
        except Exception as e:  # an execution that raises has no successor state
            tb = traceback.extract_tb(e.__traceback__)[-1]
            return ("EXC", "%s: %s @ %s:%d" % (type(e).__name__, str(e)[:120], tb.filename.split("/")[-1], tb.lineno))
        wf = wellformed_problems(new, idxs)
        if wf:
            return ("MALFORMED", "; ".join(wf)[:300])
        if cfg["move"] in ("pg", "subtree") and _SWARM_SPY["last"] is not None:
            n_part, n_want, first = _SWARM_SPY["last"]
            _SWARM_SPY["last"] = None
            if n_part != n_want:
                return ("SWARM", "final swarm holds %d particles, the sampler was asked for %d" % (n_part, n_want))
            if first is None or oracle.abstract(first.tree) != s:
                return ("SWARM", "slot 0 of the final swarm is not the retained input tree")
        return ("OK", oracle.abstract(new))

    row = {}
    n = 0
    tot = 0.0
    maxlen = 0
    try:
        for p, res, choices, _ in explore(run, max_execs=cfg.get("max_execs")):
            n += 1
            tot += p
            maxlen = max(maxlen, len(choices))
            if res[0] == "OK":
                row[res[1]] = row.get(res[1], 0.0) + p
                if res[1] not in first_choices:
                    first_choices[res[1]] = choices
            else:
                if len(problems) < 3:
                    problems.append({"kind": res[0], "what": res[1], "choices": choices, "prob": p})
                row[res] = row.get(res, 0.0) + p
                if len(problems) >= 3:
                    break  # the row is void anyway; do not enumerate a possibly exploding execution space
    except Exception as e:
        problems.append({"kind": "EXPLORER", "what": "%s: %s" % (type(e).__name__, e), "choices": [], "prob": 0.0,
                         "tb": traceback.format_exc()[-1500:]})
    return {"si": si, "row": row, "n_exec": n, "mass": tot, "problems": problems, "maxlen": maxlen,
            "witness": first_choices}


def log_pi(cfg):
    data = config_data(cfg)
    td = make_tree_dist(cfg)
    return [td.log_p_one(oracle.build(s, data)) for s in config_states(cfg)]


def balance(cfg, rows):
    """Global balance  sum_x pi(x) P(x,y) = pi(y)  for every y.  Returns (max residual, worst y,
    foreign results)."""
    states = config_states(cfg)
    lp = log_pi(cfg)
    m = max(lp)
    w = [math.exp(v - m) for v in lp]
    z = sum(w)
    pi = [x / z for x in w]
    index = {s: i for i, s in enumerate(states)}
    out = [0.0] * len(states)
    foreign = []
    for r in rows:
        for y, p in r["row"].items():
            if y in index:
                out[index[y]] += pi[r["si"]] * p
            else:
                foreign.append((r["si"], y, p))
    resid = [abs(out[i] - pi[i]) for i in range(len(states))]
    worst = max(range(len(states)), key=lambda i: resid[i])
    return resid[worst], worst, foreign, pi, out
