"""Synthetic traces for the summary commands (C11, C12, C16, C20) and decoders for their outputs."""
import contextlib
import io
import os
import re
import shutil
import tarfile
import tempfile

import numpy as np

from mc import oracle


def scratch(prefix="tr_"):
    return tempfile.mkdtemp(prefix=prefix, dir="/dev/shm" if os.path.isdir("/dev/shm") else None)


def named_data(n, dims=1, grid=4, kind="generic", seed=0, outlier_prob=0.0, names=None):
    data = oracle.make_data(n, dims=dims, grid=grid, kind=kind, seed=seed, outlier_prob=outlier_prob)
    for d in data:
        d.name = names[d.idx] if names else "mut%d" % d.idx
    return data


def clustered_setup(n, sizes, dims=1, grid=4, kind="generic", seed=0, outlier_prob=0.0, phantom=False):
    """Data points are clusters with integer ids (as PyClone-VI emits); returns data, clusters
    table rows [(mutation_id, cluster_id)].  phantom: the cluster file also lists a cluster (id between the
    others) none of whose mutations survived loading, so it has no data point."""
    ids = [10 + 3 * i for i in range(n)]  # integer ids, not 0..n-1, so ids and idx cannot be confused
    data = named_data(n, dims, grid, kind, seed, outlier_prob, names=[str(c) for c in ids])
    rows = []
    for i, c in enumerate(ids):
        for k in range(sizes[i % len(sizes)]):
            rows.append(("c%d_m%d" % (c, k), c))
        if phantom and i == 0:
            rows += [("c11_m0", 11), ("c11_m1", 11)]
    return data, rows


def make_results(data, samples, chains, cluster_rows=None, insertion_order=None, thin=1):
    """chains: {chain_num: [(tree_or_dict, score), ...]}.  thin: entry k records sampler iteration (k-1)*thin, as a thinned run does."""
    results = {}
    order = insertion_order if insertion_order is not None else sorted(chains)
    for c in order:
        trace = []
        for i, (t, score) in enumerate(chains[c]):
            td = t if isinstance(t, dict) else t.to_dict()
            trace.append({"iter": (i if thin == 1 else max(0, i - 1) * thin), "time": 0.0, "alpha": 1.0, "log_p_one": score, "tree": td})
        results[c] = {"data": data, "samples": samples, "trace": trace, "chain_num": c}
    return results


def write_trace(dirname, results, cluster_rows=None):
    from phyclone.process_trace import create_main_run_output

    path = os.path.join(dirname, "trace.pkl.gz")
    cf = None
    if cluster_rows is not None:
        cf = os.path.join(dirname, "clusters.tsv")
        with open(cf, "w") as fh:
            fh.write("mutation_id\tcluster_id\n")
            for m, c in cluster_rows:
                fh.write("%s\t%d\n" % (m, c))
    create_main_run_output(cf, path, results)
    return path


def quiet(fn, *a, **k):
    with contextlib.redirect_stdout(io.StringIO()):
        return fn(*a, **k)


# ------------------------------------------------------------------------------------------
# decoders
# ------------------------------------------------------------------------------------------
def parse_newick(s):
    """-> dict child_name -> parent_name (names as strings), root name."""
    s = s.strip()
    assert s.endswith(";"), s
    s = s[:-1]
    pos = [0]
    parent = {}

    def node():
        kids = []
        if s[pos[0]] == "(":
            pos[0] += 1
            while True:
                kids.append(node())
                if s[pos[0]] == ",":
                    pos[0] += 1
                    continue
                assert s[pos[0]] == ")", (s, pos[0])
                pos[0] += 1
                break
        m = re.match(r"[^(),;]*", s[pos[0]:])
        name = m.group(0)
        pos[0] += len(name)
        for k in kids:
            parent[k] = name
        return name

    root = node()
    assert pos[0] == len(s), (s, pos[0])
    return parent, root


def read_table(path):
    import pandas as pd

    return pd.read_csv(path, sep="\t")


def decode(table, newick, name_to_idx, cluster_of=None):
    """Table + Newick -> (abstract state over data idxs, problems, per-clone info).
    name_to_idx maps data point name (mutation id, or cluster id string) to its idx;
    cluster_of maps mutation id -> cluster id for clustered inputs."""
    probs = []
    parent, root = parse_newick(newick)
    nodes = set(parent) | set(parent.values())
    nodes.discard(root)
    clone_members = {}
    outl = set()
    for _, row in table.iterrows():
        cid = str(row["clone_id"])
        mid = str(row["mutation_id"])
        dp_name = str(cluster_of[mid]) if cluster_of is not None else mid
        if dp_name not in name_to_idx:
            if cluster_of is not None and mid in cluster_of:
                # a mutation of a listed cluster that has no data point (all its mutations were dropped on loading): in no clone
                if cid != "-1":
                    probs.append("mutation %r of cluster %s, which has no data point, is listed under clone %s" % (mid, dp_name, cid))
                continue
            probs.append("table lists unknown mutation %r" % mid)
            continue
        idx = name_to_idx[dp_name]
        if cid == "-1":
            outl.add(idx)
        else:
            if cid not in nodes:
                probs.append("clone id %r of mutation %r is not a node of the Newick tree %r" % (cid, mid, newick))
                continue
            clone_members.setdefault(cid, set()).add(idx)
    for i in set(outl):
        for cid, mem in clone_members.items():
            if i in mem:
                probs.append("data point %d is both an outlier and in clone %s" % (i, cid))
    # clones of the Newick tree without mutations are empty clones (consensus trees only)
    blocks = {c: frozenset(clone_members.get(c, set())) for c in nodes}
    seen = {}
    for c, b in blocks.items():
        for i in b:
            if i in seen:
                probs.append("data point %d is listed under clones %s and %s" % (i, seen[i], c))
            seen[i] = c
    return {"blocks": blocks, "parent": {c: (None if parent.get(c) == root else parent.get(c)) for c in nodes}, "outliers": frozenset(outl), "root": root}, probs


def decoded_state(dec):
    """Abstract state of a decoded tree when no clone is empty (else None)."""
    if any(len(b) == 0 for b in dec["blocks"].values()):
        return None
    st = frozenset((dec["blocks"][c], (dec["blocks"][dec["parent"][c]] if dec["parent"][c] is not None else None)) for c in dec["blocks"])
    return (st, dec["outliers"])


def decoded_clades(dec):
    kids = {}
    for c, p in dec["parent"].items():
        kids.setdefault(p, []).append(c)
    out = set()

    def rec(c):
        s = set(dec["blocks"][c])
        for k in kids.get(c, []):
            s |= rec(k)
        out.add(frozenset(s))
        return s

    for c in kids.get(None, []):
        rec(c)
    return frozenset(out)


def read_archive(path):
    """-> {topology_id: (table DataFrame, newick string)}"""
    import pandas as pd

    out = {}
    with tarfile.open(path, "r:gz") as tf:
        members = tf.getmembers()
        byid = {}
        for m in members:
            parts = m.name.split("/")
            byid.setdefault(parts[0], {})[parts[-1]] = tf.extractfile(m).read()
    for tid, files in byid.items():
        tab = nwk = None
        for fn, content in files.items():
            if fn.endswith(".tsv"):
                tab = pd.read_csv(io.BytesIO(content), sep="\t")
            elif fn.endswith(".nwk"):
                nwk = content.decode().strip()
        out[tid] = (tab, nwk)
    return out
