"""E2: abstract state space and the boring reference model.

An abstract clone tree is (frozenset{(block, parent_block|None)}, frozenset(outliers)) over
data indices: no node names, no graph indices, no sibling order.

The reference formulas are written from the property statements, not from the code.
"""
import itertools
import math

import numpy as np


# ------------------------------------------------------------------------------------------
# state space
# ------------------------------------------------------------------------------------------
def partitions(items):
    items = list(items)
    if not items:
        yield []
        return
    first, rest = items[0], items[1:]
    for p in partitions(rest):
        for i in range(len(p)):
            yield p[:i] + [[first] + p[i]] + p[i + 1:]
        yield [[first]] + p


def forests(k):
    """All parent vectors over k labelled nodes (parent in {-1} U nodes) that are acyclic."""
    for par in itertools.product(range(-1, k), repeat=k):
        ok = True
        for i in range(k):
            seen = set()
            j = i
            while j != -1:
                if j in seen:
                    ok = False
                    break
                seen.add(j)
                j = par[j]
            if not ok:
                break
        if ok:
            yield par


def all_states(n, outliers=False, idxs=None):
    """Every abstract clone tree over data indices 0..n-1 (or `idxs`)."""
    out = []
    idxs = list(range(n)) if idxs is None else list(idxs)
    subsets = [()]
    if outliers:
        subsets = [c for r in range(len(idxs) + 1) for c in itertools.combinations(idxs, r)]
    for outl in subsets:
        rest = [i for i in idxs if i not in outl]
        for p in partitions(rest):
            blocks = [frozenset(b) for b in p]
            for par in forests(len(blocks)):
                st = frozenset((blocks[i], blocks[par[i]] if par[i] >= 0 else None) for i in range(len(blocks)))
                out.append((st, frozenset(outl)))
    return out


def fmt_state(state):
    st, outl = state
    return {
        "clones": sorted([sorted(b), (sorted(p) if p is not None else None)] for b, p in st),
        "outliers": sorted(outl),
    }


def state_key(state):
    f = fmt_state(state)
    return repr((f["clones"], f["outliers"]))


def children_map(state):
    ch = {}
    for b, p in state[0]:
        ch.setdefault(p, []).append(b)
    for k in ch:
        ch[k].sort(key=sorted)
    return ch


def clades_of(state):
    ch = children_map(state)
    out = set()

    def rec(b):
        s = set(b)
        for c in ch.get(b, []):
            s |= rec(c)
        out.add(frozenset(s))
        return s

    for r in ch.get(None, []):
        rec(r)
    return frozenset(out)


def build(state, data, reverse_siblings=False):
    """Construct the real Tree through public API (post-order create_root_node)."""
    from phyclone.tree import Tree

    st, outl = state
    dmap = {d.idx: d for d in data}
    tree = Tree(data[0].grid_size)
    ch = children_map(state)

    def rec(b):
        kids_b = ch.get(b, [])
        if reverse_siblings:
            kids_b = kids_b[::-1]
        kids = [rec(c) for c in kids_b]
        return tree.create_root_node(children=kids, data=[dmap[i] for i in sorted(b)])

    tops = ch.get(None, [])
    if reverse_siblings:
        tops = tops[::-1]
    for r in tops:
        rec(r)
    for i in sorted(outl):
        tree.add_data_point_to_outliers(dmap[i])
    return tree


def abstract(tree):
    """Read a real Tree back through public accessors (not get_clades/__eq__)."""
    st = set()
    nd = tree.node_data
    out_name = tree.outlier_node_name
    for node in tree.nodes:
        b = frozenset(dp.idx for dp in nd.get(node, []))
        par = tree.get_parent(node)
        pb = None if par == tree.root_node_name else frozenset(dp.idx for dp in nd.get(par, []))
        st.add((b, pb))
    return (frozenset(st), frozenset(dp.idx for dp in nd.get(out_name, [])))


# ------------------------------------------------------------------------------------------
# data alphabet
# ------------------------------------------------------------------------------------------
def make_data(n, dims=1, grid=5, kind="generic", seed=0, outlier_prob=0.0, het=False):
    """Finite alphabet of likelihood-grid data sets (see DESIGN.md section 4)."""
    from phyclone.data.base import DataPoint

    rs = np.random.RandomState({"generic": 11, "flat": 12, "peaked": 13, "extreme": 14, "needle": 15, "dup": 16, "seeded": 1000 + seed}.get(kind, 11))
    data = []
    dup_v = None
    for i in range(n):
        if kind == "dup":  # byte-identical likelihood grids (duplicated mutations): equal sibling vectors
            if dup_v is None:
                dup_v = -3.0 * rs.rand(dims, grid)
            v = dup_v.copy()
        elif kind == "flat":
            v = np.zeros((dims, grid))
        elif kind == "peaked":
            c = rs.rand(dims, 1)
            x = np.linspace(0, 1, grid)[None, :]
            v = -((x - c) ** 2) * (8.0 + 20.0 * rs.rand(dims, 1))
        elif kind == "extreme":
            v = -300.0 * rs.rand(dims, grid)
        elif kind == "needle":  # far beyond the underflow floor: only finiteness and the enclosure are decidable
            v = -5000.0 * rs.rand(dims, grid)
        else:
            v = -3.0 * rs.rand(dims, grid)
        op = outlier_prob
        if het == "zeros" and outlier_prob > 0:
            # some data points (clusters) carry outlier probability exactly 0 next to others with a positive one
            op = [0.0, outlier_prob, 0.0, 0.05, 0.5, 0.0][i % 6]
        elif het and outlier_prob > 0:
            op = [outlier_prob, 0.05, 0.5, 1e-3, 0.3, 0.11][i % 6]
        if op == 0:
            lo, lon = 0, 0.0
        else:
            lo, lon = math.log(op), math.log1p(-op)
        data.append(DataPoint(i, np.ascontiguousarray(v, dtype=float), outlier_prob=lo, outlier_prob_not=lon))
    return data


# ------------------------------------------------------------------------------------------
# reference model: log-domain helpers
# ------------------------------------------------------------------------------------------
def lse(xs):
    xs = [x for x in xs if x != -math.inf]
    if not xs:
        return -math.inf
    m = max(xs)
    return m + math.log(sum(math.exp(x - m) for x in xs))


def exact_root_vector(state, data, dim):
    """Literal sum over all index assignments: entry k = sum over assignments with
    every node's index >= sum of its children's indices and top-level clones summing <= k of
    prod over nodes (prior * data likelihood), times the virtual root's prior."""
    ch = children_map(state)
    dmap = {d.idx: d for d in data}
    G = data[0].value.shape[1]
    log_prior = -math.log(G)
    nodes = [b for b, _ in state[0]]
    nodes.sort(key=sorted)
    pos = {b: i for i, b in enumerate(nodes)}
    lp = []
    for b in nodes:
        v = np.full(G, log_prior)
        for i in b:
            v = v + dmap[i].value[dim]
        lp.append(v)
    per_total = {}
    for assign in itertools.product(range(G), repeat=len(nodes)):
        ok = True
        for b in nodes:
            s = sum(assign[pos[c]] for c in ch.get(b, []))
            if s > assign[pos[b]]:
                ok = False
                break
        if not ok:
            continue
        top = sum(assign[pos[c]] for c in ch.get(None, []))
        if top > G - 1:
            continue
        val = sum(lp[i][a] for i, a in enumerate(assign))
        per_total.setdefault(top, []).append(val)
    out = np.full(G, -math.inf)
    for k in range(G):
        terms = []
        for top, vals in per_total.items():
            if top <= k:
                terms.extend(vals)
        out[k] = lse(terms) + log_prior
    return out


def conv_log(a, b):
    """O(G^2) exact log-domain truncated convolution."""
    G = len(a)
    out = np.full(G, -math.inf)
    for k in range(G):
        out[k] = lse([a[j] + b[k - j] for j in range(k + 1)])
    return out


def cum_log(a):
    out = np.empty(len(a))
    acc = -math.inf
    for i, x in enumerate(a):
        acc = lse([acc, x])
        out[i] = acc
    return out


def recursion_root_vector(state, data, dim):
    """Same quantity as exact_root_vector by the O(G^2) log-domain recursion (no floor, no
    normalisation).  Validated against the literal sum wherever both are computed."""
    ch = children_map(state)
    dmap = {d.idx: d for d in data}
    G = data[0].value.shape[1]
    log_prior = -math.log(G)

    def R(b):
        v = np.full(G, log_prior)
        if b is not None:
            for i in b:
                v = v + dmap[i].value[dim]
        kids = ch.get(b, [])
        if not kids:
            return v
        D = R(kids[0])
        for c in kids[1:]:
            D = conv_log(D, R(c))
        return v + cum_log(D)

    return R(None)


def outlier_marginal(dp):
    """Marginal likelihood the data point would have alone in a single-clone tree: per sample,
    sum over root index k of root prior * (sum over j <= k of clone prior * likelihood_j)."""
    G = dp.value.shape[1]
    lp = -math.log(G)
    tot = 0.0
    for d in range(dp.value.shape[0]):
        inner = cum_log(dp.value[d] + lp)
        tot += lse(list(inner + lp))
    return tot


def fscrp_log_prior(state, alpha, form):
    """CRP term + uniform-topology term - multiplicity, from the statement of C03."""
    st, _ = state
    ch = children_map(state)
    K = len(st)
    lp = K * math.log(alpha)
    for b, _p in st:
        lp += math.lgamma(len(b))  # log (size-1)!
    # multiplicity: log(child-count!) over all nodes incl. the virtual root
    for b in list(ch.keys()):
        lp -= math.lgamma(len(ch[b]) + 1)
    if form == "marginal":
        if K >= 1:
            lp -= (K - 1) * math.log(K + 1)
        else:
            lp -= (K - 1) * math.log(K + 1)  # K=0: -(−1)·log 1 = 0
    else:
        tops = ch.get(None, [])

        def size(b):
            return 1 + sum(size(c) for c in ch.get(b, []))

        for r in tops:
            m = size(r)
            lp -= (m - 1) * math.log(m)
        r_ = len(tops)
        if r_ >= 1:
            # 1/1000 per additional top-level clone, normalised over 1..: geometric with ratio 1/1000
            c = 1.0 / 1000.0
            # r_term = -( log((1-c^r)/(1-c)) + (r-1) log 1000 )
            lp -= math.log((1 - c ** r_) / (1 - c)) + (r_ - 1) * math.log(1000.0)
    return lp


def ref_log_joint(state, data, alpha, form, data_term=None):
    """Reference joint log-density ('marginal' = log_p, 'one' = log_p_one)."""
    st, outl = state
    dmap = {d.idx: d for d in data}
    lp = fscrp_log_prior(state, alpha, form)
    for i in outl:
        if dmap[i].outlier_prob != 0:
            lp += dmap[i].outlier_prob
    for b, _ in st:
        for i in b:
            if dmap[i].outlier_prob != 0:
                lp += dmap[i].outlier_prob_not
    if len(st) > 0:
        dims = data[0].value.shape[0]
        for d in range(dims):
            vec = data_term(state, data, d) if data_term else recursion_root_vector(state, data, d)
            lp += lse(list(vec)) if form == "marginal" else vec[-1]
    for i in outl:
        lp += outlier_marginal(dmap[i])
    return lp


def linear_extensions(state):
    """All data orders compatible with the tree: every data point of a clone after all data
    points of the clone's descendants; outliers anywhere.  Brute-force filter of all n!."""
    st, outl = state
    ch = children_map(state)
    idxs = sorted(set(i for b, _ in st for i in b) | set(outl))
    desc = {}

    def rec(b):
        s = set()
        for c in ch.get(b, []):
            s |= set(c) | rec(c)
        desc[b] = s
        return s

    for r in ch.get(None, []):
        rec(r)
    must_after = {}
    for b, _ in st:
        for i in b:
            must_after[i] = desc[b]
    out = []
    for perm in itertools.permutations(idxs):
        posn = {v: k for k, v in enumerate(perm)}
        if all(all(posn[j] < posn[i] for j in must_after.get(i, ())) for i in idxs):
            out.append(perm)
    return out


def normalise_log(logw):
    m = max(logw.values())
    z = sum(math.exp(v - m) for v in logw.values())
    return {k: math.exp(v - m) / z for k, v in logw.items()}
