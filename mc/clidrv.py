"""Driving the widest seam: the real command line (phyclone.cli, click) in this process.

`phyclone run` is invoked through click's own test runner with the process pool replaced by an
executor that computes the submitted chains in this process, in a completion order the harness
decides; the summary commands are invoked the same way.  The option alphabet is DERIVED from the
click option declarations of the repository, so a range that is widened there widens the
enumeration here.
"""
import contextlib
import gzip
import os
import pickle
import shutil
import tempfile

HDR = "mutation_id\tsample_id\tref_counts\talt_counts\tmajor_cn\tminor_cn\tnormal_cn\ttumour_content\terror_rate"


@contextlib.contextmanager
def inprocess_pool(completion_order=None):
    import phyclone.run as prun

    class Fut(object):
        def __init__(self, fn, args, kwargs):
            self.fn, self.args, self.kwargs, self._res, self._done = fn, args, kwargs, None, False

        def result(self):
            if not self._done:
                self._res, self._done = self.fn(*self.args, **self.kwargs), True
            return self._res

        def exception(self):
            return None

    class Exec(object):
        def __init__(self, *a, **k):
            pass

        def __enter__(self):
            return self

        def __exit__(self, *a):
            return False

        def submit(self, fn, *args, **kwargs):
            return Fut(fn, args, kwargs)

    def as_completed(futs):
        futs = list(futs)
        order = completion_order if completion_order is not None else range(len(futs))
        for c in order:
            futs[c].result()
            yield futs[c]

    old = prun.ProcessPoolExecutor, prun.as_completed
    prun.ProcessPoolExecutor, prun.as_completed = Exec, as_completed
    try:
        yield
    finally:
        prun.ProcessPoolExecutor, prun.as_completed = old


def scratch(prefix="cli_"):
    return tempfile.mkdtemp(prefix=prefix, dir="/dev/shm" if os.path.isdir("/dev/shm") else None)


def write_input(d, n_mut=2, n_samp=1, clustered=False):
    """A small valid input: n_mut mutations x n_samp samples (+ a cluster file putting the first two mutations together)."""
    rows = []
    for m in range(n_mut):
        for j in range(n_samp):
            rows.append("m%d\tS%d\t%d\t%d\t2\t1\t2\t%r\t0.001" % (m, j, 40 + 13 * m + 5 * j, 6 + 9 * ((m + j) % 3), 0.8))
    f = os.path.join(d, "in.tsv")
    with open(f, "w") as fh:
        fh.write(HDR + "\n" + "\n".join(rows) + "\n")
    cf = None
    if clustered:
        cf = os.path.join(d, "clusters.tsv")
        with open(cf, "w") as fh:
            fh.write("mutation_id\tcluster_id\n")
            for m in range(n_mut):
                fh.write("m%d\t%d\n" % (m, 0 if m < 2 else m - 1))
    return f, cf


def invoke(argv, completion_order=None):
    """-> (exit_code, exception or None, stdout)."""
    from click.testing import CliRunner
    import phyclone.cli as cli

    with inprocess_pool(completion_order):
        r = CliRunner().invoke(cli.main, argv, catch_exceptions=True)
    exc = r.exception if (r.exception is not None and not isinstance(r.exception, SystemExit)) else None
    return r.exit_code, exc, r.output


def read_trace(path):
    with gzip.GzipFile(path, "rb") as fh:
        return pickle.load(fh)


def run_params():
    """{option name: click.Parameter} of `phyclone run` as the repository declares them."""
    import phyclone.cli as cli

    return {p.name: p for p in cli.run.params}


def boundary_values(param):
    """Values the command line ACCEPTS for one option, boundaries first: (cli string, effective value)."""
    import click

    t = param.type
    out = []
    if isinstance(t, click.Choice):
        out = [(c, c) for c in t.choices]
    elif isinstance(t, click.types.IntRange):
        lo = t.min if t.min is not None else 1
        out = [(str(lo), lo), (str(lo + 1), lo + 1)]
        if t.max is not None:
            out.append((str(t.max), t.max))
        if t.clamp and t.min is not None:
            out.append((str(lo - 1), lo))  # accepted and clamped
    elif isinstance(t, click.types.FloatRange):
        lo, hi = t.min, t.max
        out = [(repr(float(lo)), float(lo)), (repr(float(hi)), float(hi)), (repr((lo + hi) / 2.0), (lo + hi) / 2.0)]
        if t.clamp:
            out += [(repr(lo - 1.0), float(lo)), (repr(hi + 1.0), float(hi))]
    elif param.is_flag:
        out = [("on", True), ("off", False)]
    return out


def flag_strings(param):
    """(positive switch, negative switch) of a boolean flag option."""
    return param.opts[0], (param.secondary_opts[0] if param.secondary_opts else None)


def opt_string(param):
    longs = [o for o in param.opts if o.startswith("--")]
    return longs[0] if longs else param.opts[0]


def cleanup(d):
    shutil.rmtree(d, ignore_errors=True)
