"""Subprocess driver for C18 (import-safe: the real spawn pool re-imports __main__).

modes (argv[1]):
  chains  <cfg-json> <chain list json>   run those chains, in that order, in THIS process through
                                         the real phyclone.run.run() wiring (data loading, seeded
                                         generator, spawned child generators) with a scripted
                                         executor; print one digest per chain
  orders  <cfg-json>                     run all chains once, then write the output through run()
                                         for every completion order; print per-order digests
  real    <cfg-json>                     real phyclone.run.run() with the real spawn pool
"""
import gzip
import hashlib
import itertools
import json
import os
import pickle
import sys

sys.path.insert(0, os.environ.get("VERIF_REPO", "/repo"))
sys.path.insert(0, os.path.dirname(os.path.dirname(os.path.abspath(__file__))))


def entry_repr(e):
    t = e["tree"]
    nd = {repr(k): [dp.idx for dp in v] for k, v in t["node_data"].items()}
    return (e["iter"], float(e["alpha"]).hex(), float(e["log_p_one"]).hex(), tuple(map(tuple, t["graph"])),
            tuple(sorted((repr(k), v) for k, v in t["node_idx"].items())), tuple(sorted(nd.items())), repr(t["node_last_added_to"]))


def trace_digest(trace):
    body = repr([entry_repr(e) for e in trace]).encode()
    return hashlib.sha1(body).hexdigest()


def trace_brief(trace):
    return [[e["iter"], float(e["alpha"]).hex(), float(e["log_p_one"]).hex()] for e in trace]


class Abort(Exception):
    pass


class FakeFuture(object):
    def __init__(self, fn, args, kwargs=None):
        self.fn, self.args, self.kwargs = fn, args, (kwargs or {})
        self._res = None
        self._done = False

    def compute(self):
        if not self._done:
            self._res = self.fn(*self.args, **self.kwargs)
            self._done = True
        return self._res

    def exception(self):
        return None

    def result(self):
        return self.compute()


def run_kwargs(cfg, out_file):
    return dict(
        in_file=cfg["in_file"], out_file=out_file, burnin=cfg.get("burnin", 2), cluster_file=cfg.get("cluster_file"),
        concentration_value=1.0, concentration_update=cfg.get("conc_update", True), density=cfg.get("density", "beta-binomial"),
        grid_size=cfg.get("grid_size", 11), num_iters=cfg.get("iters", 6), num_particles=cfg.get("N", 4), outlier_prob=cfg.get("outlier_prob", 0.0),
        precision=cfg.get("precision", 400.0), print_freq=1000, proposal=cfg.get("proposal", "semi-adapted"), seed=cfg.get("seed", 7),
        thin=1, num_chains=cfg["chains"], subtree_update_prob=cfg.get("subtree_prob", 0.0),
        assign_loss_prob=cfg.get("assign_loss_prob", False),
    )


def mode_chains(cfg, chain_list):
    import contextlib
    import io
    import phyclone.run as prun

    submitted = []

    class Exec(object):
        def __init__(self, *a, **k):
            pass

        def __enter__(self):
            return self

        def __exit__(self, *a):
            return False

        def submit(self, fn, *args, **kwargs):
            f = FakeFuture(fn, args, kwargs)
            submitted.append(f)
            return f

    def as_completed(futs):
        raise Abort()

    prun.ProcessPoolExecutor = Exec
    prun.as_completed = as_completed
    out = {}
    with contextlib.redirect_stdout(io.StringIO()):
        try:
            prun.run(**run_kwargs(cfg, os.devnull))
        except Abort:
            pass
        assert len(submitted) == cfg["chains"], len(submitted)
        by_chain = {}
        for c in chain_list:
            res = submitted[c].compute()
            assert res["chain_num"] == c, (res["chain_num"], c)
            out[c] = {"digest": trace_digest(res["trace"]), "brief": trace_brief(res["trace"])}
            submitted[c]._done = False  # a worker that runs the chain again recomputes it
    return out


def mode_orders(cfg):
    import contextlib
    import io
    import tempfile
    import phyclone.run as prun

    cache = {}
    order_box = {"order": None}

    class Exec(object):
        def __init__(self, *a, **k):
            self.futs = []

        def __enter__(self):
            return self

        def __exit__(self, *a):
            return False

        def submit(self, fn, *args, **kwargs):
            f = FakeFuture(fn, args, kwargs)
            f.chain = len(self.futs)
            if f.chain in cache:
                f._res, f._done = cache[f.chain], True
            self.futs.append(f)
            return f

    def as_completed(futs):
        futs = list(futs)
        for c in order_box["order"]:
            cache[c] = futs[c].compute()
            yield futs[c]

    prun.ProcessPoolExecutor = Exec
    prun.as_completed = as_completed
    out = {}
    d = tempfile.mkdtemp(prefix="c18o_", dir="/dev/shm" if os.path.isdir("/dev/shm") else None)
    try:
        for order in itertools.permutations(range(cfg["chains"])):
            order_box["order"] = order
            path = os.path.join(d, "t.pkl.gz")
            with contextlib.redirect_stdout(io.StringIO()):
                prun.run(**run_kwargs(cfg, path))
            with gzip.GzipFile(path, "rb") as fh:
                res = pickle.load(fh)
            out["".join(map(str, order))] = {"keys_in_file_order": list(res.keys()), "per_chain": {str(c): trace_digest(res[c]["trace"]) for c in sorted(res)},
                                              "chain_num_fields": [res[c]["chain_num"] for c in sorted(res)]}
    finally:
        import shutil

        shutil.rmtree(d, ignore_errors=True)
    return out


def mode_real(cfg):
    import contextlib
    import io
    import tempfile
    import phyclone.run as prun

    if cfg.get("affinity"):
        os.sched_setaffinity(0, set(cfg["affinity"]))
    d = tempfile.mkdtemp(prefix="c18r_", dir="/dev/shm" if os.path.isdir("/dev/shm") else None)
    try:
        path = os.path.join(d, "t.pkl.gz")
        with contextlib.redirect_stdout(io.StringIO()):
            prun.run(**run_kwargs(cfg, path))
        with gzip.GzipFile(path, "rb") as fh:
            res = pickle.load(fh)
        return {str(c): {"digest": trace_digest(res[c]["trace"]), "brief": trace_brief(res[c]["trace"])} for c in sorted(res)}
    finally:
        import shutil

        shutil.rmtree(d, ignore_errors=True)


# ------------------------------------------------------------------------------------------
# steering the REAL spawn pool: binds the TLC model to the implementation
# ------------------------------------------------------------------------------------------
def logged_chain(*args, **kwargs):
    """Module-level (picklable by reference from the spawned children, which re-import this file):
    the real chain function, with a start/end line per task appended to the steering log."""
    import time
    import phyclone.run as prun

    path = os.environ["C18_STEER_LOG"]
    with open(path, "a") as fh:
        fh.write("start %d -1\n" % os.getpid())
    res = _REAL_CHAIN[0](*args, **kwargs) if _REAL_CHAIN else prun.run_phyclone_chain(*args, **kwargs)
    with open(path, "a") as fh:
        fh.write("end %d %d\n" % (os.getpid(), res["chain_num"]))  # the chain number as the result itself reports it
    return res


_REAL_CHAIN = []


def mode_steer(cfg, m):
    """Run the real run() on the real spawn ProcessPoolExecutor while a monitor thread suspends
    (SIGSTOP) all but `m` of the freshly spawned workers during their import phase, so that the
    remaining workers are re-used.  Reports the schedule class that was actually realised."""
    import contextlib
    import io
    import signal
    import tempfile
    import threading
    import time
    import phyclone.run as prun
    from concurrent.futures import ProcessPoolExecutor

    d = tempfile.mkdtemp(prefix="c18s_", dir="/dev/shm" if os.path.isdir("/dev/shm") else None)
    log = os.path.join(d, "steer.log")
    open(log, "w").close()
    os.environ["C18_STEER_LOG"] = log
    K = cfg["chains"]
    registry = []

    class SpyExecutor(ProcessPoolExecutor):
        def __init__(self, *a, **k):
            super().__init__(*a, **k)
            registry.append(self)

    # the submitted callable is looked up in phyclone.run's globals by run(): replace it by the logging wrapper,
    # which calls the original (run_phyclone_chain is still reachable under its own name for the wrapper in the children)
    orig = prun.run_phyclone_chain
    prun.ProcessPoolExecutor = SpyExecutor
    state = {"stopped": set(), "free": set(), "done": False}

    def monitor():
        while not state["done"]:
            for ex in list(registry):
                for pid in list(getattr(ex, "_processes", {}) or {}):
                    if pid in state["stopped"] or pid in state["free"]:
                        continue
                    if len(state["free"]) < m:
                        state["free"].add(pid)
                    else:
                        try:
                            os.kill(pid, signal.SIGSTOP)
                            state["stopped"].add(pid)
                        except ProcessLookupError:
                            pass
            try:
                ends = sum(1 for l in open(log) if l.startswith("end "))
            except OSError:
                ends = 0
            if ends >= K and state["stopped"]:
                for pid in list(state["stopped"]):
                    try:
                        os.kill(pid, signal.SIGCONT)
                    except ProcessLookupError:
                        pass
                state["stopped"].clear()
            time.sleep(0.02)

    th = threading.Thread(target=monitor, daemon=True)
    th.start()
    path = os.path.join(d, "t.pkl.gz")
    try:
        # make run() submit the logging wrapper
        prun.run_phyclone_chain = logged_chain
        with contextlib.redirect_stdout(io.StringIO()):
            prun.run(**run_kwargs(cfg, path))
    finally:
        prun.run_phyclone_chain = orig
        state["done"] = True
        for pid in list(state["stopped"]):
            try:
                os.kill(pid, signal.SIGCONT)
            except ProcessLookupError:
                pass
    with gzip.GzipFile(path, "rb") as fh:
        res = pickle.load(fh)
    per_pid = {}
    order = []
    for line in open(log):
        kind, pid, c = line.split()
        if kind == "end":
            per_pid.setdefault(pid, []).append(int(c))
            order.append(int(c))
    import shutil

    shutil.rmtree(d, ignore_errors=True)
    return {"workers": sorted(per_pid.values()), "completion_order": order, "suspended_workers": K - len(per_pid),
            "per_chain": {str(c): {"digest": trace_digest(res[c]["trace"]), "brief": trace_brief(res[c]["trace"])} for c in sorted(res)}}


def main():
    mode = sys.argv[1]
    cfg = json.loads(sys.argv[2])
    if mode == "chains":
        out = mode_chains(cfg, json.loads(sys.argv[3]))
    elif mode == "orders":
        out = mode_orders(cfg)
    elif mode == "real":
        out = mode_real(cfg)
    elif mode == "steer":
        out = mode_steer(cfg, int(json.loads(sys.argv[3])))
    else:
        raise SystemExit("unknown mode")
    print("C18OUT " + json.dumps(out))


if __name__ == "__main__":
    main()
