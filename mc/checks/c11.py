"""C11: trace summaries pick the true maximum and count topologies exactly.

Every trace with <= 3 chains and <= 3 (4) entries over an entry alphabet of trees (two of them
the same tree built and labelled differently) x scores (ties by repetition) x every split over
the chains x every chain insertion order, written by the real writer, summarised by the real
commands, judged by a Counter over abstract trees.
"""
import collections
import itertools
import json
import os
import shutil

import numpy as np

from mc import oracle, traces
from mc.harness import Check, pool_imap

SCORES = (-3.0, -1.5)


def alphabet(which, data):
    fs = frozenset
    if which == 2:
        # many distinct trees over 4 data points (report tables with more than 16 rows), each also in a relabelled copy
        states = oracle.all_states(4, outliers=True)
        out = []
        for k in range(0, len(states), 15):
            t = oracle.build(states[k], data, reverse_siblings=bool(k % 2))
            t.relabel_nodes()
            out.append(("T%d" % k, t, states[k]))
        return out

    def st(pairs, outl=()):
        return (fs((fs(b), fs(p) if p is not None else None) for b, p in pairs), fs(outl))

    if which == 3:
        # two outliers: the same tree recurs with its outlier list stored in another order (the samplers re-add data points in permutation order)
        a = st([((0,), None), ((1,), None)], outl=(2, 3))
        b = st([((0,), None), ((1,), (0,))], outl=(2, 3))
        A = oracle.build(a, data)
        A2 = oracle.build(a, data, reverse_siblings=True)
        for dp in list(A2.outliers):
            A2.remove_data_point_from_outliers(dp)
        for dp in sorted(data, key=lambda d: -d.idx):
            if dp.idx in (2, 3):
                A2.add_data_point_to_outliers(dp)
        A2.relabel_nodes()
        return [("A", A, a), ("A'", A2, a), ("B", oracle.build(b, data), b)]
    if which == 0:
        a = st([((0,), None), ((1,), (0,)), ((2,), None)])
        b = st([((0, 1), None), ((2,), (0, 1))])
    else:
        a = st([((0,), None), ((1,), None)], outl=(2,))
        b = st([((0,), None), ((1,), (0,))], outl=(2,))
    A = oracle.build(a, data)
    A2 = oracle.build(a, data, reverse_siblings=True)
    A2.relabel_nodes()
    # give A' different labels and graph positions: graft it through a prune/regraft round trip
    v = A2.nodes[-1]
    par = A2.get_parent(v)
    sub = A2.get_subtree(v)
    A2.remove_subtree(sub)
    A2.add_subtree(sub, parent=None if par == A2.root_node_name else par)
    A2.update()
    B = oracle.build(b, data)
    return [("A", A, a), ("A'", A2, a), ("B", B, b)]


def splits(total, chains):
    """compositions of `total` entries into `chains` positive parts"""
    for c in itertools.combinations(range(1, total), chains - 1):
        parts = [b - a for a, b in zip((0,) + c, c + (total,))]
        yield parts


def enumerate_traces(max_entries, max_chains):
    syms = [(t, s) for t in range(3) for s in range(2)]
    for total in range(1, max_entries + 1):
        for seq in itertools.product(range(len(syms)), repeat=total):
            for k in range(1, min(max_chains, total) + 1):
                for parts in splits(total, k):
                    yield seq, parts


def case(item):
    which, seqs = item
    from phyclone.process_trace import write_map_results, write_topology_report

    data = traces.named_data(4 if which in (2, 3) else 3, grid=3, outlier_prob=0.2)
    alpha = alphabet(which, data)
    syms = [(t, s) for t in range(len(alpha)) for s in range(2)]
    out = {"item": (which, len(seqs)), "problems": [], "n": 0, "distinct": 0}
    d = traces.scratch("c11_")
    try:
        for seq, parts, order in seqs:
            chains = {}
            pos = 0
            for c, ln in enumerate(parts):
                chains[c] = [(alpha[syms[k][0]][1], SCORES[syms[k][1]]) for k in seq[pos:pos + ln]]
                pos += ln
            entries = []  # (chain, index, state, score)
            pos = 0
            for c, ln in enumerate(parts):
                for i, k in enumerate(seq[pos:pos + ln]):
                    entries.append((c, i, alpha[syms[k][0]][2], SCORES[syms[k][1]]))
                pos += ln
            results = traces.make_results(data, ["S"], chains, insertion_order=list(order))
            path = traces.write_trace(d, results)
            cnt = collections.Counter(e[2] for e in entries)
            best = max(e[3] for e in entries)
            ctx = {"alphabet": which, "chains": {c: [(alpha[syms[k][0]][0], SCORES[syms[k][1]]) for k in seq[sum(parts[:c]):sum(parts[:c + 1])]] for c in range(len(parts))}, "insertion_order": list(order)}
            out["n"] += 1
            if len(cnt) > 1:
                out["distinct"] += 1
            name_to_idx = {str(x.name): x.idx for x in data}
            tb, tr = os.path.join(d, "t.tsv"), os.path.join(d, "t.nwk")

            def problem(msg):
                out["problems"].append({"what": msg, "trace": ctx, "replay": {"which": which, "seq": list(seq), "parts": list(parts), "order": list(order)}})

            # MAP, joint-likelihood
            try:
                traces.quiet(write_map_results, path, tb, tr, map_type="joint-likelihood")
                dec, dp = traces.decode(traces.read_table(tb), open(tr).read().strip(), name_to_idx)
                s = traces.decoded_state(dec)
                if dp or not any(e[2] == s and e[3] == best for e in entries):
                    problem("map: returned tree %r does not attain the maximum log_p_one %g" % (oracle.fmt_state(s) if s else dp, best))
            except Exception as e:
                problem("map: failed with %s: %s" % (type(e).__name__, str(e)[:100]))
            # MAP, frequency
            try:
                traces.quiet(write_map_results, path, tb, tr, map_type="frequency")
                dec, dp = traces.decode(traces.read_table(tb), open(tr).read().strip(), name_to_idx)
                s = traces.decoded_state(dec)
                if dp or cnt.get(s, 0) != max(cnt.values()):
                    problem("map/frequency: returned topology has count %d, the maximum is %d" % (cnt.get(s, 0), max(cnt.values())))
            except Exception as e:
                problem("map/frequency: failed with %s: %s" % (type(e).__name__, str(e)[:100]))
            # topology report
            for top in (1, 2, None):
                rep, arch = os.path.join(d, "r.tsv"), os.path.join(d, "r.tar.gz")
                try:
                    kw = {} if top is None else {"top_trees": top}
                    traces.quiet(write_topology_report, path, rep, topologies_archive=arch, **kw)
                    df = traces.read_table(rep)
                except Exception as e:
                    problem("topology-report: failed with %s: %s" % (type(e).__name__, str(e)[:100]))
                    break
                if top is None:
                    if len(df) != len(cnt):
                        problem("topology-report: %d rows for %d distinct trees" % (len(df), len(cnt)))
                        break
                    if int(df["count"].sum()) != len(entries):
                        problem("topology-report: counts sum to %d, trace has %d entries" % (int(df["count"].sum()), len(entries)))
                    seen_states = set()
                    scores = list(df["log_p_joint_max"])
                    if scores != sorted(scores, reverse=True):
                        problem("topology-report: rows not ranked by score: %r" % scores)
                    if list(df["topology_id"]) != ["t_%d" % i for i in range(len(df))]:
                        problem("topology-report: ids %r" % list(df["topology_id"]))
                    for _, row in df.iterrows():
                        c, i = int(row["chain_num"]), int(row["iter"])
                        ent = [e for e in entries if e[0] == c and e[1] == i]
                        if not ent:
                            problem("topology-report: pointer (chain %d, entry %d) leads nowhere" % (c, i))
                            continue
                        s = ent[0][2]
                        if s in seen_states:
                            problem("topology-report: two rows for the same tree")
                        seen_states.add(s)
                        if int(row["count"]) != cnt[s]:
                            problem("topology-report: tree %r counted %d times, occurs %d times" % (oracle.fmt_state(s), int(row["count"]), cnt[s]))
                        mx = max(e[3] for e in entries if e[2] == s)
                        if float(row["log_p_joint_max"]) != mx:
                            problem("topology-report: tree score %g, maximum over its entries is %g" % (float(row["log_p_joint_max"]), mx))
                        if ent[0][3] != float(row["log_p_joint_max"]):
                            problem("topology-report: pointer leads to an entry with score %g, row says %g" % (ent[0][3], float(row["log_p_joint_max"])))
                    if seen_states != set(cnt):
                        problem("topology-report: rows do not cover the distinct trees of the trace")
                    full_df = df
                # archive = exactly the top-ranked ids, each decoding to its row's tree
                try:
                    arc = traces.read_archive(arch)
                except Exception as e:
                    problem("topology-report: archive unreadable: %s" % e)
                    continue
                k = len(cnt) if top is None else min(top, len(cnt))
                if sorted(arc) != sorted("t_%d" % i for i in range(k)):
                    problem("topology-report: archive for top_trees=%r holds %r, expected the first %d ids" % (top, sorted(arc), k))
                for tid, (tab, nwk) in arc.items():
                    dec, dp = traces.decode(tab, nwk, name_to_idx)
                    s = traces.decoded_state(dec)
                    rows = df[df["topology_id"] == tid]
                    if dp or len(rows) != 1:
                        problem("topology-report: archive member %s undecodable" % tid)
                        continue
                    c, i = int(rows.iloc[0]["chain_num"]), int(rows.iloc[0]["iter"])
                    ent = [e for e in entries if e[0] == c and e[1] == i]
                    if ent and ent[0][2] != s:
                        problem("topology-report: archive member %s is not the tree of its row" % tid)
            if len(out["problems"]) > 3:
                break
    except Exception as e:
        out["problems"].append({"what": "harness: %s: %s" % (type(e).__name__, e), "trace": None, "replay": None})
    finally:
        shutil.rmtree(d, ignore_errors=True)
    return out


def all_cases(tier):
    max_entries = 3 if tier == "quick" else 4
    out = []
    for seq, parts in enumerate_traces(max_entries, 3):
        for order in itertools.permutations(range(len(parts))):
            out.append((seq, parts, order))
    return out


def main(tier, seed):
    chk = Check("C11", tier, seed)
    chk.rule = ("every trace with <=3 chains and <=3 (4) entries: every sequence over 3 trees (A, A' = A built/labelled differently, B) x 2 scores, every split "
                "over the chains, EVERY chain insertion (= completion) order, three tree alphabets (second with an outlier, third with two outliers stored in different orders); written by create_main_run_output, "
                "summarised by map (both modes) and topology-report (top_trees 1, 2, all); reference: Counter over abstract trees; non-trivial = trace with >= 2 distinct trees")
    chk.assumptions = ["ties: any maximiser accepted", "the MAP tree is identified by decoding table + Newick"]
    cases = all_cases(tier)
    items = []
    chunk = 40
    for which in (0, 1, 3):
        cs = cases if (tier == "thorough" or which == 0) else cases[(which % 3)::3]
        for i in range(0, len(cs), chunk):
            items.append((which, cs[i:i + chunk]))
    # long traces with many distinct topologies
    nsym = 2 * len(alphabet(2, traces.named_data(4, grid=3, outlier_prob=0.2)))
    for k in range(1, 7 if tier == "quick" else 25):
        seq = tuple((7 * i * k + 3 * i + k) % nsym for i in range(30))
        for parts, order in (((30,), (0,)), ((10, 10, 10), (0, 1, 2)), ((10, 10, 10), (2, 0, 1)), ((3, 20, 7), (1, 2, 0))):
            items.append((2, [(seq, parts, order)]))
    for r in pool_imap(case, items, chunksize=1):
        chk.transitions += r["n"] * 5
        chk.traces_validated += r["n"]
        chk.n_states_extra += r["n"]
        chk.n_nontrivial_extra += r["distinct"]
        for pr in r["problems"][:3]:
            chk.violation({"sub": pr["what"].split(":")[0], "what": pr["what"].split(":")[1].strip()[:30] if ":" in pr["what"] else ""},
                          {"problem": pr["what"], "trace": pr["trace"]}, pr["replay"])
    chk.sample({"alphabet": 0, "chains": {"0": [["A", -3.0], ["A'", -1.5]], "1": [["B", -1.5]]}, "insertion_order": [1, 0]})
    return chk.finish()


def replay(path):
    body = json.load(open(path))
    rp = body["replay"]
    r = case((rp["which"], [(tuple(rp["seq"]), tuple(rp["parts"]), tuple(rp["order"]))]))
    for p in r["problems"]:
        print(p["what"])
    return 1 if r["problems"] else 0
