"""C14: memoised recursion and proposal results equal unmemoised computation.

Shadow execution: each of the four memoised entry points is wrapped from the harness; every
call made while the real samplers run also evaluates the wrapped original for the same arguments
at that moment and compares.  Call histories are enumerated: every sequence of sampler moves,
concentration changes and cache clears up to a length bound, under the enumerating generator.
"""
import itertools
import json

import numpy as np

from mc import oracle, stationarity as S
from mc.enumrng import explore, ScriptedRNG
from mc.harness import Check, pool_imap

MISMATCH = []
STATS = {}
_INSTALLED = {"done": False}


def _bump(k):
    STATS[k] = STATS.get(k, 0) + 1


def install():
    if _INSTALLED["done"]:
        return
    _INSTALLED["done"] = True
    import phyclone.tree.tree_node as tn
    import phyclone.tree.utils as tu
    import phyclone.smc.kernels.semi_adapted as sa
    import phyclone.smc.kernels.fully_adapted as fa

    def shadow_S(cached):
        raw = cached.__wrapped__

        def w(lst, *a, **k):
            h0 = cached.cache_info().hits
            got = cached(lst, *a, **k)
            hit = cached.cache_info().hits > h0
            exp = raw(np.array(lst, order="C"))
            _bump("recursion " + ("hit" if hit else "miss"))
            if not (np.shape(got) == np.shape(exp) and np.allclose(got, exp, rtol=0, atol=1e-9)):
                MISMATCH.append("children-convolution recursion: memoised result differs from recomputation by %.3e" % float(np.max(np.abs(np.asarray(got) - np.asarray(exp)))))
            return got

        w.cache_info = cached.cache_info
        w.cache_clear = cached.cache_clear
        w.__wrapped__ = raw
        return w

    def shadow_conv(cached):
        raw = cached.__wrapped__

        def w(a, b):
            h0 = cached.cache_info().hits
            got = cached(a, b)
            hit = cached.cache_info().hits > h0
            exp = raw(a, b)
            _bump("pairwise convolution " + ("hit" if hit else "miss"))
            if not (got.shape == exp.shape and np.allclose(got, exp, rtol=0, atol=1e-9)):
                MISMATCH.append("pairwise convolution: memoised result differs from recomputation by %.3e" % float(np.max(np.abs(got - exp))))
            return got

        w.cache_info = cached.cache_info
        w.cache_clear = cached.cache_clear
        w.__wrapped__ = raw
        return w

    tn.compute_log_S = shadow_S(tn.compute_log_S)
    tu.compute_log_S = tn.compute_log_S
    tu._convolve_two_children = shadow_conv(tu._convolve_two_children)

    def dist_sig(d):
        # the candidates with their clone numbering, in the order the proposal holds them (a random draw indexes that order)
        sig = [(oracle.state_key(oracle.abstract(k.tree)), tuple(sorted((i, repr(c)) for i, c in k.tree.labels.items())), round(float(v), 9)) for k, v in d._log_p.items()]
        extra = (getattr(d, "parent_is_empty_tree", None), round(float(getattr(d, "_cached_log_old_num_roots", 0.0) or 0.0), 12),
                 round(float(d.outlier_proposal_prob), 12))
        return sig, extra

    def shadow_prop(mod, name):
        cached = getattr(mod, name)
        raw = cached.__wrapped__

        def w(dp, kernel, pp, op, alpha):
            bt = pp._built_tree[-1] if (pp is not None and len(pp._built_tree)) else None
            h0 = cached.cache_info().hits
            got = cached(dp, kernel, pp, op, alpha)
            hit = cached.cache_info().hits > h0
            if pp is not None:
                pp.built_tree = bt
            exp = raw(dp, kernel, pp, op, alpha)
            _bump(name + (" hit" if hit else " miss"))
            if dist_sig(got) != dist_sig(exp):
                MISMATCH.append("%s: memoised proposal differs from a freshly built one (data point %r, alpha %r, hit=%s)" % (name, dp.idx, alpha, hit))
            return got

        w.cache_info = cached.cache_info
        w.cache_clear = cached.cache_clear
        w.__wrapped__ = raw
        setattr(mod, name, w)

    shadow_prop(sa, "_get_cached_semi_proposal_dist")
    shadow_prop(fa, "_get_cached_full_proposal_dist")
    cached_new = sa.get_cached_new_tree
    raw_new = cached_new.__wrapped__

    def new_w(pp, dp, children, td, pd):
        h0 = cached_new.cache_info().hits
        got = cached_new(pp, dp, children, td, pd)
        hit = cached_new.cache_info().hits > h0
        exp = raw_new(pp, dp, children, td, pd)
        _bump("cached new-clone tree " + ("hit" if hit else "miss"))
        if oracle.abstract(got.tree) != oracle.abstract(exp.tree) or sorted((i, repr(c)) for i, c in got.tree.labels.items()) != sorted((i, repr(c)) for i, c in exp.tree.labels.items()) or abs(got.log_p - exp.log_p) > 1e-9 or abs(got.log_p_one - exp.log_p_one) > 1e-9 or abs(got.log_pdf - exp.log_pdf) > 1e-9:
            MISMATCH.append("cached new-clone tree differs from a freshly built one (data point %r, children %r, hit=%s)" % (dp.idx, sorted(children), hit))
        return got

    new_w.cache_info = cached_new.cache_info
    new_w.cache_clear = cached_new.cache_clear
    new_w.__wrapped__ = raw_new
    sa.get_cached_new_tree = new_w


OPS = ["pg:bootstrap", "pg:semi-adapted", "pg:fully-adapted", "subtree:semi-adapted", "dp", "prg", "alpha", "clear"]


def make_run(cfg):
    """cfg: n, history (list of ops), mode ('run' clears before each SMC move as the run loop does, 'library' never clears by itself)."""
    import phyclone.smc.kernels as K
    from phyclone.smc.utils import RootPermutationDistribution
    from phyclone.mcmc import ParticleGibbsTreeSampler, ParticleGibbsSubtreeSampler, DataPointSampler, PruneRegraphSampler
    from phyclone.tree import Tree, FSCRPDistribution, TreeJointDistribution
    from phyclone.utils.dev import clear_proposal_dist_caches

    install()
    n = cfg["n"]
    op_ = cfg.get("outlier_prob", 0.0)
    data = oracle.make_data(n, grid=3, outlier_prob=op_, kind=cfg.get("data", "generic"))

    def run(rng):
        S.clear_caches(all_caches=True)
        del MISMATCH[:]
        td = TreeJointDistribution(FSCRPDistribution(1.0))
        kernels = {k: getattr(K, S.KERNELS[k])(td, rng, outlier_proposal_prob=(0.1 if op_ > 0 else 0.0), perm_dist=RootPermutationDistribution()) for k in S.KERNELS}
        tree = Tree.get_single_node_tree(data)
        alphas = itertools.cycle([2.5, 0.4, 1.0])
        try:
            for op in cfg["history"]:
                if op.startswith("pg:") or op.startswith("subtree:"):
                    if cfg["mode"] == "run":
                        clear_proposal_dist_caches()
                    kern = kernels[op.split(":")[1]]
                    cls = ParticleGibbsTreeSampler if op.startswith("pg:") else ParticleGibbsSubtreeSampler
                    tree = cls(kern, rng, num_particles=cfg.get("N", 2), resample_threshold=0.5).sample_tree(tree)
                elif op == "dp":
                    tree = DataPointSampler(td, rng, outliers=op_ > 0).sample_tree(tree)
                elif op == "prg":
                    tree = PruneRegraphSampler(td, rng).sample_tree(tree)
                elif op == "alpha":
                    td.prior.alpha = next(alphas)
                elif op == "clear":
                    clear_proposal_dist_caches()
                if cfg["mode"] == "run" and op.split(":")[0] in ("pg", "subtree"):
                    tree.relabel_nodes()
        except Exception as e:
            return ["history raised %s: %s" % (type(e).__name__, str(e)[:120])]
        return list(MISMATCH[:3])

    return run


def case(item):
    cfg, bound = item
    res = {"item": item, "n": 0, "problems": [], "stats": {}}
    STATS.clear()
    run = make_run(cfg)
    try:
        for p, probs, choices, _ in explore(run, policy=cfg.get("policy", "first"), max_deviations=bound, max_execs=cfg.get("cap")):
            res["n"] += 1
            if probs and len(res["problems"]) < 2:
                res["problems"].append({"problems": probs, "choices": choices})
    except Exception as e:
        res["problems"].append({"problems": ["explorer: %s: %s" % (type(e).__name__, e)], "choices": []})
    res["stats"] = dict(STATS)
    return res


def eviction_case(item):
    """One process, no clears: far more distinct children lists than the memos hold (1024 pairwise / 4096 list entries), so
    entries are evicted and their arrays freed; interleaved with repeats of earlier lists built as NEW array objects.  Every
    call is shadowed by the unmemoised function."""
    n_lists, n_children, grid, dims, seed = item
    import phyclone.tree.tree_node as tn

    install()
    S.clear_caches(all_caches=True)
    del MISMATCH[:]
    STATS.clear()
    res = {"item": item, "n": 0, "problems": [], "stats": {}}

    def make(k):
        rs = np.random.RandomState(seed * 100003 + k)
        out = []
        for c in range(n_children + (k % 2)):
            v = rs.gamma(0.7, size=(dims, grid)) + 1e-6
            out.append(np.log(v / v.sum(axis=1, keepdims=True)) - rs.uniform(0, 30))
        return out

    try:
        for k in range(n_lists):
            tn.compute_log_S(make(k))
            res["n"] += 1
            if k % 3 == 0 and k > 10:
                for back in (1, 7, 600, 1500, 3000):
                    if k - back >= 0:
                        lst = make(k - back)
                        if k % 2:
                            lst = lst[::-1]
                        tn.compute_log_S(lst)
                        res["n"] += 1
            if MISMATCH:
                res["problems"].append("after %d children lists in one process: %s" % (k + 1, MISMATCH[0]))
                break
    except Exception as e:
        res["problems"].append("raised %s: %s" % (type(e).__name__, str(e)[:120]))
    res["stats"] = dict(STATS)
    return res


def order_case(item):
    """History independence, bit for bit: the memoised recursion's value for a children list must not depend on which
    ordering of the same children reached the memo first (a last-bit difference is enough to flip a later random choice):
    for every pair of orderings, the value served after the other ordering was computed equals the value computed cold."""
    n_children, grid, dims, seed = item
    import phyclone.tree.tree_node as tn

    install()
    res = {"item": item, "n": 0, "problems": []}
    rs = np.random.RandomState(seed)
    arrs = []
    for c in range(n_children):
        v = rs.gamma(0.7, size=(dims, grid)) + 1e-6
        arrs.append(np.log(v / v.sum(axis=1, keepdims=True)) - rs.uniform(0, 30))
    perms = list(itertools.permutations(range(n_children)))
    if len(perms) > 24:
        perms = perms[::5]
    try:
        cold = {}
        for pm in perms:
            S.clear_caches(all_caches=True)
            cold[pm] = np.array(tn.compute_log_S([arrs[i].copy() for i in pm]), copy=True)
        for pa in perms:
            for pb in perms:
                if pa == pb:
                    continue
                S.clear_caches(all_caches=True)
                tn.compute_log_S([arrs[i].copy() for i in pa])
                warm = np.asarray(tn.compute_log_S([arrs[i].copy() for i in pb]))
                res["n"] += 1
                if warm.shape != cold[pb].shape or warm.tobytes() != cold[pb].tobytes():
                    res["problems"].append("%d children: the value served for ordering %r after ordering %r was computed differs from the cold value by %.3e (bit-exact comparison)" % (
                        n_children, list(pb), list(pa), float(np.max(np.abs(warm - cold[pb])))))
                    return res
        # nearly equal is not equal: children that differ from earlier ones in the last digits only (the same mutations summed in
        # another order) must get their own value, not the earlier one
        for scale in (1e-15, 1e-13, 1e-11):
            near = [a * (1.0 + scale * ((k % 3) - 1)) + scale * k for k, a in enumerate(arrs)]
            if all(np.array_equal(x, y) for x, y in zip(near, arrs)):
                continue
            S.clear_caches(all_caches=True)
            cold_near = np.array(tn.compute_log_S([x.copy() for x in near]), copy=True)
            S.clear_caches(all_caches=True)
            tn.compute_log_S([a.copy() for a in arrs])
            warm_near = np.asarray(tn.compute_log_S([x.copy() for x in near]))
            res["n"] += 1
            if warm_near.tobytes() != cold_near.tobytes():
                res["problems"].append("%d children: after the recursion was computed for a children list, a list that differs from it by %.0e (relative) is served a value that differs from its cold value by %.3e (bit-exact comparison)" % (
                    n_children, scale, float(np.max(np.abs(warm_near - cold_near)))))
                return res
    except Exception as e:
        res["problems"].append("raised %s: %s" % (type(e).__name__, str(e)[:120]))
    finally:
        del MISMATCH[:]
    return res


def key_family_work(item):
    """Keys of the two array-keyed memos over a large enumerated family of distinct realistic arguments: the log-likelihood
    grid of one mutation for EVERY (depth, alternate count) in a depth range.  -> {key: digest of the argument bytes}."""
    import hashlib
    from phyclone.utils.utils import NumpyArrayListHasher, NumpyTwoArraysHasher

    lo, hi, G = item
    ccf = np.linspace(0.0, 1.0, G)
    p_alt = 0.001 + (0.5 - 0.001) * ccf
    lp, lq = np.log(p_alt), np.log1p(-p_alt)
    base = np.full((1, G), -1.25)
    one, two = {}, {}
    n = 0
    probs = []
    for d in range(lo, hi):
        b = np.arange(d + 1)[:, None]
        M = b * lp[None, :] + (d - b) * lq[None, :]
        for row in M:
            arr = np.ascontiguousarray(row[None, :])
            dg = hashlib.sha1(arr.tobytes()).digest()[:10]
            n += 1
            try:
                k1 = NumpyArrayListHasher([arr]).h
                k2 = NumpyTwoArraysHasher(arr, base).h
            except Exception as e:
                return {"item": item, "n": n, "one": {}, "two": {}, "problems": ["building a memo key raised %s: %s" % (type(e).__name__, e)]}
            for nm, tab, k in (("children-list", one, k1), ("pair", two, k2)):
                k = repr(k) if not isinstance(k, (tuple, frozenset, str, int)) else k
                if k in tab and tab[k] != dg and len(probs) < 3:
                    probs.append("%s memo: two different arguments (depth %d) share the key %r" % (nm, d, k))
                tab[k] = dg
    return {"item": item, "n": n, "one": one, "two": two, "problems": probs}


def key_family(chk, tier):
    """No two different arguments of the enumerated family may share a memo key (a shared key serves one argument the other's value)."""
    hi = 800 if tier == "quick" else 1100
    edges = list(range(20, hi, 20)) + [hi]
    items = [(a, b, 101) for a, b in zip(edges, edges[1:])]
    one, two = {}, {}
    tot = 0
    for r in pool_imap(key_family_work, items, chunksize=1):
        tot += r["n"]
        for pr in r["problems"]:
            chk.violation({"sub": "memo-key", "what": pr.split(":")[0]}, {"problem": pr}, {"key_family": list(r["item"])})
        for nm, tab, part in (("children-list", one, r["one"]), ("pair", two, r["two"])):
            for k, dg in part.items():
                if k in tab and tab[k] != dg:
                    chk.violation({"sub": "memo-key", "what": nm + " memo"}, {"problem": "%s memo: two different arguments of the enumerated family share the key %r" % (nm, k)}, {"key_family": [20, hi, 101]})
                tab[k] = dg
    chk.evaluations += 2 * tot
    chk.n_states_extra += tot
    chk.note("memo_key_family", {"distinct_arguments": tot, "distinct_children_list_keys": len(one), "distinct_pair_keys": len(two)})
    if len(one) != tot or len(two) != tot:
        chk.violation({"sub": "memo-key", "what": "fewer keys than arguments"}, {"problem": "%d distinct arguments map to %d / %d keys" % (tot, len(one), len(two))}, {"key_family": [20, hi, 101]})


def main(tier, seed):
    chk = Check("C14", tier, seed)
    chk.rule = ("every history of length <=2 (3 thorough) over {particle-Gibbs update per proposal, subtree update, data-point move, prune-regraft, concentration change, "
                "cache clear}, once with the clears the run loop performs and once without; n=2: ALL random outcomes, n=3: deviation bound 1 (2 thorough); every call "
                "of the four memoised functions shadowed by the wrapped original; key part: the memo keys of every single-mutation likelihood grid for all (depth <= 800 (1100), alternate count) pairs "
                "(320k / 600k distinct arguments) are pairwise different; eviction part: 2600 (9000) distinct children lists plus repeats in one process without clears, every call shadowed; order part: the value served for one ordering of 3-5 children after another ordering was computed is bit-identical to the cold value, all pairs of orderings; non-trivial = history whose exploration made >= 1 cache hit")
    chk.assumptions = ["tolerance 1e-9 on arrays and log-probabilities (the caches are keyed order-insensitively, so last-bit differences are expected and are C18's business)",
                       "all memo caches are emptied at the start of every execution; warm states arise from the history itself"]
    L = 2 if tier == "quick" else 3
    items = []
    hists = [h for l in range(1, L + 1) for h in itertools.product(OPS, repeat=l)]
    hists = [h for h in hists if any(o.split(":")[0] in ("pg", "subtree") for o in h)]
    for h in hists:
        for mode in ("run", "library"):
            if len(h) <= 2:
                items.append((dict(n=2, history=list(h), mode=mode, outlier_prob=(0.2 if len(h) == 2 else 0.0)), None))
                items.append((dict(n=3, history=list(h), mode=mode, cap=600), 1 if tier == "quick" else 2))
            else:
                items.append((dict(n=2, history=list(h), mode=mode, cap=1500), 2))
    # duplicated mutations: byte-identical sibling vectors, so children lists can differ in multiplicity only
    for x in ("pg:bootstrap", "pg:semi-adapted", "pg:fully-adapted", "subtree:semi-adapted"):
        for mode in ("run", "library"):
            items.append((dict(n=3, history=[x, "prg", x], mode=mode, cap=1200, data="dup"), 1 if tier == "quick" else 2))
            items.append((dict(n=4, history=[x], mode=mode, cap=1200, data="dup"), 1 if tier == "quick" else 2))
    # the shortest histories in which a stale entry could be served after a change: X, change, X
    if tier == "quick":
        for x in ("pg:bootstrap", "pg:semi-adapted", "pg:fully-adapted", "subtree:semi-adapted"):
            for mid in ("alpha", "dp", "prg", "clear"):
                for mode in ("run", "library"):
                    items.append((dict(n=2, history=[x, mid, x], mode=mode, cap=1500, outlier_prob=0.2), 2))
    # the same X-change-X histories under the other default policies: "last" sends every semi-adapted draw
    # down the new-clone branch, so the new-clone memo is asked twice for the same arguments
    for x in ("pg:semi-adapted", "subtree:semi-adapted", "pg:fully-adapted", "pg:bootstrap"):
        for mid in ("alpha", "clear", "dp"):
            for pol in ("last", "unlikely", "likely"):
                for n_ in (2, 3):
                    items.append((dict(n=n_, history=[x, mid, x], mode="library", cap=400, policy=pol, outlier_prob=(0.2 if n_ == 2 else 0.0)), 1))
    hits_total = {}
    for r in pool_imap(case, items, chunksize=1):
        cfg, bound = r["item"]
        chk.transitions += r["n"]
        chk.traces_validated += r["n"]
        chk.states.add(json.dumps(cfg, sort_keys=True))
        nh = sum(v for k, v in r["stats"].items() if k.endswith("hit"))
        for k, v in r["stats"].items():
            hits_total[k] = hits_total.get(k, 0) + v
        if nh:
            chk.nontrivial.add(json.dumps(cfg, sort_keys=True))
        if bound is not None:
            chk.exhaustive = False
        for pr in r["problems"]:
            chk.violation({"sub": "memo", "what": pr["problems"][0].split(":")[0][:40], "mode": cfg["mode"]}, {"config": cfg, "problem": pr}, {"config": cfg, "choices": pr["choices"]})
    key_family(chk, tier)
    # beyond the capacity of the memos (eviction, freed arrays, repeats as new objects)
    ev_items = [(2600 if tier == "quick" else 9000, nc, g, d, seed + 1) for (nc, g, d) in ((3, 9, 1), (4, 5, 2), (2, 21, 1))]
    for r in pool_imap(eviction_case, ev_items, chunksize=1):
        chk.transitions += r["n"]
        chk.traces_validated += r["n"]
        chk.states.add(json.dumps(["eviction", list(r["item"])]))
        chk.nontrivial.add(json.dumps(["eviction", list(r["item"])]))
        for k, v in r["stats"].items():
            hits_total["eviction: " + k] = hits_total.get("eviction: " + k, 0) + v
        for pr in r["problems"]:
            chk.violation({"sub": "memo-eviction", "what": pr.split(":")[1].strip()[:40] if ":" in pr else pr[:40]}, {"problem": pr, "lists,children,grid,samples,seed": list(r["item"])}, {"eviction": list(r["item"])})
    for r in pool_imap(order_case, [(nc, g, d_, seed + 7 * k) for k, (nc, g, d_) in enumerate(((3, 7, 1), (3, 21, 2), (4, 5, 1), (4, 11, 2), (5, 4, 1), (3, 1001, 1)))], chunksize=1):
        chk.transitions += r["n"]
        chk.traces_validated += r["n"]
        chk.states.add(json.dumps(["order", list(r["item"])]))
        chk.nontrivial.add(json.dumps(["order", list(r["item"])]))
        for pr in r["problems"]:
            chk.violation({"sub": "memo-history-independence", "what": pr.split(":")[0][:40]}, {"problem": pr, "children,grid,samples,seed": list(r["item"])}, {"order": list(r["item"])})
    chk.note("shadowed_calls", hits_total)
    chk.caps.append("n=2 histories of length <=2: all random outcomes; n=3 and length-3 histories: deviation-bounded with an execution cap")
    chk.sample({"history": ["pg:semi-adapted", "alpha"], "mode": "library", "n": 2})
    chk.sample({"history": ["subtree:semi-adapted", "pg:fully-adapted"], "mode": "run", "n": 3, "deviation_bound": 1})
    return chk.finish()


def replay(path):
    body = json.load(open(path))
    rp = body["replay"]
    if "order" in rp:
        r = order_case(tuple(rp["order"]))
        print(r["problems"])
        return 1 if r["problems"] else 0
    if "eviction" in rp:
        r = eviction_case(tuple(rp["eviction"]))
        print(r["problems"], r["stats"])
        return 1 if r["problems"] else 0
    if "key_family" in rp:
        lo, hi, G = rp["key_family"]
        r = key_family_work((lo, hi, G))
        print("arguments:", r["n"], "children-list keys:", len(r["one"]), "pair keys:", len(r["two"]), r["problems"])
        return 1 if (r["problems"] or len(r["one"]) != r["n"] or len(r["two"]) != r["n"]) else 0
    probs = make_run(rp["config"])(ScriptedRNG(rp["choices"], policy=rp["config"].get("policy", "first")))
    print(probs)
    return 1 if probs else 0
