"""C08: SMC proposals are normalised, faithfully sampled, complete and correctly weighted.

(1) complete + normalised over the oracle's list of placements, (2) faithful: every execution
of sample() under the enumerating generator reproduces exp(log_p) exactly, (3) weights
telescope along every path of the unconditional and the conditional SMC sampler, (4) the set
of reachable final trees is the oracle's set of trees compatible with the data order.
"""
import itertools
import json
import math
import traceback

from mc import oracle, stationarity as S
from mc.enumrng import explore
from mc.harness import Check, pool_imap

KERNELS = ["bootstrap", "semi-adapted", "fully-adapted"]
TOL = 1e-9


def _kernel(kname, rng, td, op, perm):
    import phyclone.smc.kernels as K
    from phyclone.smc.utils import RootPermutationDistribution

    cls = getattr(K, S.KERNELS[kname])
    return cls(td, rng, outlier_proposal_prob=op, perm_dist=(RootPermutationDistribution() if perm else None))


def placements(parent_state, idx, outliers_on):
    """Oracle: every way of placing data point idx: into each top-level clone, into a new clone
    above any subset of top-level clones, and (if on) the outlier set."""
    if parent_state is None:
        parent_state = (frozenset(), frozenset())
    st, outl = parent_state
    tops = [b for b, p in st if p is None]
    out = []
    for t in tops:
        nb = frozenset(t | {idx})
        new = set()
        for b, p in st:
            b2 = nb if b == t else b
            p2 = nb if p == t else p
            new.add((b2, p2))
        out.append((frozenset(new), outl))
    for k in range(len(tops) + 1):
        for sub in itertools.combinations(tops, k):
            nb = frozenset({idx})
            new = set()
            for b, p in st:
                new.add((b, nb if (p is None and b in sub) else p))
            new.add((nb, None))
            out.append((frozenset(new), outl))
    if outliers_on:
        out.append((st, frozenset(outl | {idx})))
    return out


def build_candidate(parent_tree, parent_state, cand_state, dp, grid_size):
    """parent.copy() + the one edit, exactly as the kernels compose it."""
    from phyclone.tree import Tree

    tree = Tree(grid_size) if parent_tree is None else parent_tree.copy()
    pst = parent_state if parent_state is not None else (frozenset(), frozenset())
    if dp.idx in cand_state[1]:
        tree.add_data_point_to_outliers(dp)
        return tree
    blk = [b for b, _ in cand_state[0] if dp.idx in b][0]
    nd = tree.node_data
    name_of = {frozenset(d.idx for d in v): k for k, v in nd.items() if k != tree.outlier_node_name}
    if len(blk) > 1:
        tree.add_data_point_to_node(dp, name_of[frozenset(blk - {dp.idx})])
        return tree
    kids = [name_of[b] for b, p in cand_state[0] if p == blk]
    tree.create_root_node(children=kids, data=[dp])
    return tree


def proposal_case(item):
    kname, op, perm, alpha, m, psi = item[:6]
    kind = item[6] if len(item) > 6 else "generic"  # "needle": deep data, placements thousands of log units apart
    from phyclone.tree import FSCRPDistribution, TreeJointDistribution, Tree
    from phyclone.smc.swarm import Particle, TreeHolder
    from phyclone.smc.utils import RootPermutationDistribution

    data = oracle.make_data(m + 1, grid=4, outlier_prob=(0.2 if op > 0 else 0.0), kind=kind, dims=(2 if kind == "needle" else 1))
    td = TreeJointDistribution(FSCRPDistribution(alpha))
    pd = RootPermutationDistribution() if perm else None
    parents = [None] if m == 0 else oracle.all_states(m, outliers=op > 0)
    ps = parents[psi]
    dp = data[m]
    res = {"item": item, "problems": [], "nexec": 0, "ncand": 0}

    def mk(rng):
        S.clear_caches()
        kernel = _kernel(kname, rng, td, op, perm)
        if ps is None:
            return kernel, None, None
        pt = oracle.build(ps, data)
        pp = Particle(0, None, pt, td, pd)
        return kernel, pp, pt

    try:
        kernel, pp, pt = mk(None)
        dist = kernel.get_proposal_distribution(dp, pp, pt)
        cands = placements(ps, dp.idx, op > 0)
        res["ncand"] = len(cands)
        q = {}
        logq = {}
        for c in cands:
            ct = build_candidate(oracle.build(ps, data) if ps is not None else None, ps, c, dp, dp.grid_size)
            assert oracle.abstract(ct) == c, (oracle.fmt_state(oracle.abstract(ct)), oracle.fmt_state(c))
            try:
                lp1 = float(dist.log_p(TreeHolder(ct, td, pd)))
                q[c] = math.exp(lp1)
                logq[c] = lp1
                if kname == "bootstrap":  # the only kernel whose sample() hands a plain Tree to log_p()
                    lp2 = float(dist.log_p(ct))
                    if abs(lp1 - lp2) > 1e-9:
                        res["problems"].append(("log_p differs between Tree and TreeHolder argument", oracle.fmt_state(c), lp1, lp2))
            except Exception as e:
                res["problems"].append(("log_p raises", oracle.fmt_state(c), "%s: %s" % (type(e).__name__, e)))
                q[c] = float("nan")
        tot = sum(q.values())
        if not abs(tot - 1.0) < TOL:
            res["problems"].append(("sum of reported probabilities", tot, sorted(([oracle.fmt_state(c), p] for c, p in q.items()), key=repr)[:8]))
        for c, p in q.items():
            # positive probability is judged in log space: a placement may be thousands of log units below the best one
            lp = logq.get(c, float("nan"))
            if not (lp == lp and lp > -math.inf and lp <= 1e-9):
                res["problems"].append(("placement has no positive probability", oracle.fmt_state(c), lp))
        # faithful sampling
        emp = {}

        def run(rng):
            kernel, pp, pt = mk(rng)
            d = kernel.get_proposal_distribution(dp, pp, pt)
            t = d.sample()
            t = t if isinstance(t, Tree) else t.tree
            return oracle.abstract(t)

        n = 0
        tot = 0.0
        for p, r, _c, _d in explore(run):
            emp[r] = emp.get(r, 0.0) + p
            n += 1
            tot += p
        res["nexec"] = n
        if abs(tot - 1) > 1e-9:
            res["problems"].append(("sampling mass", tot))
        for c in set(emp) | set(q):
            if not abs(emp.get(c, 0.0) - q.get(c, 0.0)) <= TOL:
                res["problems"].append(("sampled probability != reported", oracle.fmt_state(c), emp.get(c, 0.0), q.get(c, "not a listed placement")))
                break
    except Exception as e:
        res["problems"].append(("exception", "%s: %s" % (type(e).__name__, e), traceback.format_exc()[-600:]))
    return res


def path_of(particle):
    out = []
    p = particle
    while p is not None:
        out.append(oracle.abstract(p.tree))
        p = p.parent_particle
    return tuple(reversed(out))


def _warm_up(kernel, td, sigma, alpha, rng, other=2.9):
    """Library use across a concentration change: the same kernel object first runs a pass under a
    different alpha (filling every memo), then alpha is assigned in place; no cache is cleared."""
    import numpy as np
    from phyclone.smc.samplers import SMCSampler

    td.prior.alpha = other
    kernel._rng = np.random.default_rng(5)
    for _ in range(3):
        SMCSampler(list(sigma), kernel, num_particles=4, resample_threshold=0.5).sample()
    td.prior.alpha = alpha
    kernel._rng = rng


def weights_case(item):
    kname, op, perm, alpha, n, order = item[:6]
    warm = len(item) > 6 and item[6]
    from phyclone.tree import FSCRPDistribution, TreeJointDistribution
    from phyclone.smc.samplers import SMCSampler, ConditionalSMCSampler
    from phyclone.smc.utils import RootPermutationDistribution

    data = oracle.make_data(n, grid=4, outlier_prob=(0.2 if op > 0 else 0.0))
    td = TreeJointDistribution(FSCRPDistribution(alpha))
    sigma = [data[i] for i in order]
    res = {"item": item, "problems": [], "nexec": 0, "paths": 0, "cond": 0}

    def target(state):
        t = oracle.build(state, data)
        v = float(td.log_p_one(t))
        if perm:
            v += float(RootPermutationDistribution.log_pdf(t))
        return v

    try:
        # unconditional, N = 1, no resampling: every execution is one path of placements
        paths = {}

        def run(rng):
            S.clear_caches()
            kernel = _kernel(kname, rng, td, op, perm)
            if warm:
                _warm_up(kernel, td, sigma, alpha, rng, other=(alpha + warm if isinstance(warm, float) else 2.9))
            sw = SMCSampler(list(sigma), kernel, num_particles=1, resample_threshold=0.0).sample()
            return path_of(sw.particles[0]), float(sw.unnormalized_log_weights[0])

        tot = 0.0
        for p, (path, w), _c, _d in explore(run):
            res["nexec"] += 1
            tot += p
            e = paths.setdefault(path, [0.0, set()])
            e[0] += p
            e[1].add(round(w, 9))
        if abs(tot - 1) > 1e-9:
            res["problems"].append(("mass", tot))
        res["paths"] = len(paths)
        Qpath = {p: e[0] for p, e in paths.items()}

        def score(path):  # log target - log proposal probability of the whole path
            return target(path[-1]) - math.log(Qpath[path])

        # unconditional, N = 2: weights are renormalised per generation, so they are judged up to
        # a common constant: log_w1 - log_w0 must equal the difference of target/proposal
        if n <= 2 or tuple(order) == tuple(range(n)):
            def run2(rng):
                S.clear_caches()
                kernel = _kernel(kname, rng, td, op, perm)
                if warm:
                    _warm_up(kernel, td, sigma, alpha, rng, other=(alpha + warm if isinstance(warm, float) else 2.9))
                sw = SMCSampler(list(sigma), kernel, num_particles=2, resample_threshold=0.0).sample()
                u = sw.unnormalized_log_weights
                return path_of(sw.particles[0]), float(u[0]), path_of(sw.particles[1]), float(u[1])

            for p, (p0, w0, p1, w1), _c, _d in explore(run2):
                res["nexec"] += 1
                if p0 not in Qpath or p1 not in Qpath:
                    res["problems"].append(("path seen with two particles but not with one", [oracle.fmt_state(s) for s in p0]))
                    break
                d = (w1 - w0) - (score(p1) - score(p0))
                if not abs(d) <= 1e-8:
                    res["problems"].append(("weight ratio != target/proposal ratio (unconditional)", {"path0": [oracle.fmt_state(s) for s in p0], "path1": [oracle.fmt_state(s) for s in p1]},
                                            {"log_w1-log_w0": w1 - w0, "expected": score(p1) - score(p0)}))
                    break
        # reachable final trees = trees compatible with the order
        finals = {p[-1] for p in paths}
        compat = {s for s in oracle.all_states(n, outliers=op > 0) if tuple(order) in set(oracle.linear_extensions(s))}
        if finals != compat:
            res["problems"].append(("reachable final trees != trees compatible with the order",
                                    {"missing": [oracle.fmt_state(s) for s in list(compat - finals)[:3]], "extra": [oracle.fmt_state(s) for s in list(finals - compat)[:3]]}))
        # conditional, N = 2, no resampling: slot 0 retained, slot 1 free
        for x in sorted(compat, key=oracle.state_key):
            def runc(rng, x=x):
                S.clear_caches()
                kernel = _kernel(kname, rng, td, op, perm)
                if warm:
                    _warm_up(kernel, td, sigma, alpha, rng, other=(alpha + warm if isinstance(warm, float) else 2.9))
                sm = ConditionalSMCSampler(oracle.build(x, data), list(sigma), kernel, num_particles=2, resample_threshold=0.0)
                sw = sm.sample()
                u = sw.unnormalized_log_weights
                return path_of(sw.particles[0]), float(u[0]), path_of(sw.particles[1]), float(u[1])

            for p, (p0, w0, p1, w1), _c, _d in explore(runc):
                res["cond"] += 1
                if p0[-1] != x:
                    res["problems"].append(("retained path does not end in the input tree", oracle.fmt_state(x), oracle.fmt_state(p0[-1])))
                    break
                if p0 not in Qpath or p1 not in Qpath:
                    res["problems"].append(("conditional sampler follows a path the proposals cannot take", [oracle.fmt_state(s) for s in (p0 if p0 not in Qpath else p1)]))
                    break
                d = (w1 - w0) - (score(p1) - score(p0))
                if not abs(d) <= 1e-8:
                    res["problems"].append(("weight ratio != target/proposal ratio (conditional: free vs retained particle)",
                                            {"retained": [oracle.fmt_state(s) for s in p0], "free": [oracle.fmt_state(s) for s in p1]},
                                            {"log_w1-log_w0": w1 - w0, "expected": score(p1) - score(p0)}))
                    break
            if res["problems"]:
                break
    except Exception as e:
        res["problems"].append(("exception", "%s: %s" % (type(e).__name__, e), traceback.format_exc()[-800:]))
    return res


def items(tier):
    prop, wts = [], []
    ms = (0, 1, 2, 3) if tier == "quick" else (0, 1, 2, 3, 4)
    for k in KERNELS:
        for op in (0.0, 0.1):
            for perm in (False, True):
                for alpha in ((1.0,) if tier == "quick" else (0.4, 1.0, 2.5)):
                    for m in ms:
                        np_ = 1 if m == 0 else len(oracle.all_states(m, outliers=op > 0))
                        if m == 4 and (op > 0 or not perm or alpha != 1.0):
                            continue
                        for psi in range(np_):
                            prop.append((k, op, perm, alpha, m, psi))
                # deep data (two samples, placements thousands of log units apart): every placement keeps a positive, finite log-probability
                if perm:
                    for m in (1, 2, 3) if tier == "quick" else (1, 2, 3, 4):
                        np_ = len(oracle.all_states(m, outliers=op > 0))
                        for psi in range(np_):
                            if m == 4 and (op > 0 or psi % 3):
                                continue
                            prop.append((k, op, perm, 1.0, m, psi, "needle"))
                ns = (1, 2, 3)
                for n in ns:
                    for order in itertools.permutations(range(n)):
                        if n == 3 and op > 0 and tier == "quick" and order not in ((0, 1, 2), (2, 0, 1)):
                            continue
                        wts.append((k, op, perm, 1.3, n, order))
                        if perm and order == tuple(range(n)) and n >= 2:
                            wts.append((k, op, perm, 1.3, n, order, True))
                            # ... and under an alpha that differs in the fifth decimal only (what one concentration update can do)
                            wts.append((k, op, perm, 1.3, n, order, 3e-5))
    return prop, wts


def main(tier, seed):
    chk = Check("C08", tier, seed)
    chk.rule = ("proposal cases: kernel x outlier proposal {0,0.1} x permutation distribution {none, root} x alpha x EVERY parent tree over "
                "m <= 3 (4 thorough) data points x next data point: every oracle placement scored, ALL executions of sample(); weight cases: "
                "every data order x ALL executions (= all placement paths) of SMCSampler (N=1) and ConditionalSMCSampler (N=2, every compatible "
                "retained tree), no resampling; non-trivial = proposal with >= 2 placements / order with >= 2 paths")
    chk.assumptions = ["candidate trees are built as parent.copy() + one edit, as the kernels do", "data: generic grid-4 values, outlier prior 0.2 when on; deep two-sample data (values down to -5000) for a second pass over every parent tree"]
    prop, wts = items(tier)
    for r in pool_imap(proposal_case, prop, chunksize=4):
        k, op, perm, alpha, m, psi = r["item"][:6]
        deep = len(r["item"]) > 6
        chk.states.add(("parent", m, op > 0, psi, deep))
        chk.transitions += r["nexec"]
        chk.traces_validated += r["nexec"]
        chk.evaluations += r["ncand"]
        if r["ncand"] >= 2:
            chk.nontrivial.add(("prop",) + tuple(r["item"]))
        key = {"sub": "proposal", "kernel": k, "outlier_proposal": op > 0, "perm": perm, "m": m, "deep_data": deep}
        for pr in r["problems"][:2]:
            chk.violation(dict(key, what=pr[0]), {"case": r["item"], "problem": pr}, {"kind": "proposal", "item": r["item"]})
        if len(chk.samples) < 2 and m == 2 and r["ncand"] > 3:
            chk.sample({"proposal_case": r["item"], "placements": r["ncand"], "executions_of_sample": r["nexec"]})
    for r in pool_imap(weights_case, wts, chunksize=1):
        k, op, perm, alpha, n, order = r["item"][:6]
        chk.transitions += r["nexec"] + r["cond"]
        chk.traces_validated += r["nexec"] + r["cond"]
        chk.bump("placement_paths", r["paths"])
        if r["paths"] >= 2:
            chk.nontrivial.add(("w",) + tuple(r["item"]))
        key = {"sub": "weights", "kernel": k, "outlier_proposal": op > 0, "perm": perm, "n": n, "warm_caches_other_alpha": len(r["item"]) > 6}
        for pr in r["problems"][:2]:
            chk.violation(dict(key, what=pr[0]), {"case": r["item"], "problem": pr}, {"kind": "weights", "item": r["item"]})
        if len(chk.samples) < 4 and n == 3:
            chk.sample({"weights_case": r["item"], "paths": r["paths"], "smc_executions": r["nexec"], "conditional_executions": r["cond"]})
    return chk.finish()


def replay(path):
    body = json.load(open(path))
    rp = body["replay"]
    it = rp["item"]
    it = tuple(tuple(x) if isinstance(x, list) else x for x in it)
    r = proposal_case(it) if rp["kind"] == "proposal" else weights_case(it)
    print(json.dumps(r["problems"], default=repr, indent=1)[:3000])
    return 1 if r["problems"] else 0
