"""C15: trees survive serialisation; trace entries are self-consistent.

Tree part: in every state of the edit-history BFS the dictionary form, its pickle and the gzip
trace file restore an equal tree, and every enabled edit gives the same result on the restored
tree as on the original (one-step bisimulation).
Trace part: the real chain driver under the enumerating generator and a virtual clock over the
run-configuration grid; every entry restores to a tree over all data whose recomputed log_p_one
under the recorded alpha equals the recorded value, recorded in the right order.
"""
import gzip
import io
import json
import os
import pickle
import tempfile

import numpy as np

from mc import chain, editbfs, oracle, stationarity as S
from mc.enumrng import explore
from mc.harness import Check, pool_imap
from mc.invariants import wellformed
from mc.checks import c06

_TD = {}


def _td(alpha=1.3):
    from phyclone.tree import FSCRPDistribution, TreeJointDistribution

    return TreeJointDistribution(FSCRPDistribution(alpha))


def observable(t, with_names=True, with_maps=True):
    """What C15 promises to preserve: clades/outliers/labels/per-node likelihoods/densities."""
    td = _td()
    items = []
    has_clones = len(t.nodes) > 0
    for nm in t.nodes:
        node = t._graph[t._node_indices[nm]]
        par = t.get_parent(nm)
        b = tuple(sorted(d.idx for d in t._data.get(nm, [])))
        pb = None if par == t.root_node_name else tuple(sorted(d.idx for d in t._data.get(par, [])))
        items.append(((repr(nm), repr(par)) if with_names else (), b, pb, node.log_p.copy(), node.log_r.copy()))
    items.sort(key=lambda x: (x[1], x[0]))
    outl = tuple(sorted(d.idx for d in t.outliers))
    last = repr(t.node_last_added_to) if with_names else None
    root = t.data_log_likelihood.copy() if has_clones else None
    return {"items": items, "outl": outl, "last": last, "root": root, "log_p": float(td.log_p(t)), "log_p_one": float(td.log_p_one(t)),
            "maps": (tuple(sorted((repr(k), v) for k, v in t._node_indices.items())) if (with_names and with_maps) else None)}


def obs_diff(a, b, tol=1e-9):
    if a["outl"] != b["outl"]:
        return "outliers differ %r vs %r" % (a["outl"], b["outl"])
    if a["last"] != b["last"]:
        return "last-edited clone differs %r vs %r" % (a["last"], b["last"])
    if a["maps"] != b["maps"]:
        return "name/index maps differ"
    if len(a["items"]) != len(b["items"]):
        return "clone count differs"
    for x, y in zip(a["items"], b["items"]):
        if x[0] != y[0] or x[1] != y[1] or x[2] != y[2]:
            return "clone differs: %r vs %r" % (x[:3], y[:3])
        for k, nm in ((3, "log_p"), (4, "log_r")):
            if x[k].shape != y[k].shape or float(np.max(np.abs(x[k] - y[k]))) > tol:
                return "clone %r %s differs" % (x[1], nm)
    if (a["root"] is None) != (b["root"] is None) or (a["root"] is not None and float(np.max(np.abs(a["root"] - b["root"]))) > tol):
        return "root likelihood vector differs"
    for k in ("log_p", "log_p_one"):
        if not abs(a[k] - b[k]) <= tol * 10:
            return "%s differs: %.12g vs %.12g" % (k, a[k], b[k])
    return None


def _from_dict(d):
    from phyclone.tree import Tree

    return Tree.from_dict(d)


def restorers(data):
    from phyclone.tree import Tree
    from phyclone.process_trace import create_main_run_output

    def via_dict(t):
        return Tree.from_dict(t.to_dict())

    def via_pickle(t):
        return Tree.from_dict(pickle.loads(pickle.dumps(t.to_dict(), protocol=pickle.HIGHEST_PROTOCOL)))

    def via_trace(t):
        d = tempfile.mkdtemp(prefix="c15_", dir="/dev/shm" if os.path.isdir("/dev/shm") else None)
        path = os.path.join(d, "trace.pkl.gz")
        try:
            results = {0: {"data": data, "samples": ["S"], "chain_num": 0, "trace": [{"iter": 0, "time": 0.0, "alpha": 1.0, "log_p_one": 0.0, "tree": t.to_dict()}]}}
            create_main_run_output(None, path, results)
            with gzip.GzipFile(path, "rb") as fh:
                back = pickle.load(fh)
            return Tree.from_dict(back[0]["trace"][0]["tree"])
        finally:
            try:
                os.remove(path)
                os.rmdir(d)
            except OSError:
                pass

    return {"dict": via_dict, "pickle": via_pickle, "trace": via_trace}


def make_invariant(data):
    rs = restorers(data)
    g = editbfs.Grammar(data)

    def inv(t_before, ev, t, depth):
        probs = []
        o = observable(t)
        ways = ("dict", "pickle", "trace") if depth % 3 == 0 else ("dict", "pickle")
        restored = {}
        for w in ways:
            try:
                r = rs[w](t)
            except Exception as e:
                return ["restore via %s raised %s: %s" % (w, type(e).__name__, e)]
            wf = wellformed(r, {d.idx for d in t.data})
            if wf:
                return ["restored tree (%s) malformed: %s" % (w, wf[0])]
            # graph positions are an implementation detail the dictionary form does not promise (a restore may renumber
            # them densely); what must survive is labels, shape, data, last-edited clone, likelihoods, densities - and the
            # restored tree's own name<->position maps must be consistent, which wellformed() above has checked
            d = obs_diff(observable(t, True, False), observable(r, True, False))
            if d:
                return ["restore via %s: %s" % (w, d)]
            restored[w] = r
        # snapshot isolation: a dictionary taken now (as the trace does) must not change when the tree is
        # afterwards edited IN PLACE - which the subtree sampler does (remove_subtree, moving the outliers out)
        if ev[0] in ("sub", "move", "prg", "new", "outl", "add_root") or depth <= 2:
            live = t.copy()
            snap = live.to_dict()
            try:
                for c in list(live.nodes)[:2]:
                    sr = live.get_parent(c)
                    sub = live.get_subtree(sr)
                    live.remove_subtree(sub)
                    for dp in live.outliers:
                        live.remove_data_point_from_outliers(dp)
                        sub.add_data_point_to_outliers(dp)
                    break
                live.relabel_nodes()
            except Exception as e:
                return ["in-place subtree extraction raised %s: %s" % (type(e).__name__, e)]
            try:
                d = obs_diff(observable(t, True, False), observable(_from_dict(snap), True, False))
            except Exception as e:
                return ["a dictionary taken before an in-place edit no longer restores: %s: %s" % (type(e).__name__, e)]
            if d:
                return ["a dictionary taken before an in-place edit of the tree changed with it: %s" % d]
        # one-step bisimulation on the dictionary round trip
        r = restored["dict"]
        hist_is_smc = True  # the restored tree is offered every edit the original gets
        for e in g.enabled(t, ()):
            if e[0] in ("copy", "dict", "pickle"):
                continue
            try:
                a = g.apply(t, e)
            except Exception as ex:
                continue  # the edit is not applicable to the original either: nothing to compare
            try:
                b = g.apply(r, e)
            except Exception as ex:
                return ["edit %r works on the original but raises on the restored tree: %s: %s" % (e, type(ex).__name__, ex)]
            names = e[0] != "relabel"  # pre-order relabelling follows sibling order, which the dictionary form does not promise
            # graph positions of re-attached clones depend on which vacated positions the graph library
            # re-uses; only labels, shape, data and likelihoods are promised
            d = obs_diff(observable(a, names, False), observable(b, names, False))
            if d:
                return ["after edit %r restored and original diverge: %s" % (e, d)]
        return probs

    return inv


# ------------------------------------------------------------------------------------------
# trace part
# ------------------------------------------------------------------------------------------
def trace_case(item):
    cfg, policy, bound = item
    res = {"item": item, "n": 0, "problems": [], "entries": 0, "distinct": set()}
    run = make_trace_run(cfg)
    return _trace_explore(res, run, policy, bound)


def make_trace_run(cfg):
    from phyclone.tree import Tree, FSCRPDistribution, TreeJointDistribution

    start = None
    if cfg.get("start") is not None:
        start = oracle.all_states(cfg["n"], outliers=True)[cfg["start"]]
        cfg = {k: v for k, v in cfg.items() if k != "start"}
    c = chain.full(cfg)
    full_list = [i for i in range(c["iters"]) if i % c["thin"] == 0]

    def run(rng):
        S.clear_caches()
        rec = {}
        try:
            if start is not None:
                out, data = chain.run_main_from(cfg, rng, start)
                rec["burnin_tree"] = oracle.build(start, data)
            else:
                out, data = chain.run_chain(cfg, rng, record=rec)
        except Exception as e:
            return ["chain raised %s: %s" % (type(e).__name__, str(e)[:150])], 0, None
        probs = []
        trace = out["trace"]
        idxs = {d.idx for d in data}
        iters = [e["iter"] for e in trace]
        if not trace:
            return ["empty trace"], 0, None
        # entry 0: the state after burn-in
        t0 = Tree.from_dict(trace[0]["tree"])
        if oracle.abstract(t0) != oracle.abstract(rec["burnin_tree"]):
            probs.append("first entry is not the tree burn-in returned")
        got = iters[1:]
        if c["max_time"] == float("inf"):
            if got != full_list:
                probs.append("recorded iterations %r, expected %r" % (got, full_list))
        elif got != full_list[: len(got)]:
            probs.append("recorded iterations %r are not a prefix of %r" % (got, full_list))
        probs += entry_problems(trace, idxs)
        sig = tuple(oracle.state_key(oracle.abstract(Tree.from_dict(e["tree"]))) for e in trace)
        return probs, len(trace), sig

    return run


def entry_problems(trace, idxs, label=""):
    from phyclone.tree import Tree, FSCRPDistribution, TreeJointDistribution

    probs = []
    for k, e in enumerate(trace):
        try:
            t = Tree.from_dict(pickle.loads(pickle.dumps(e["tree"])))
        except Exception as ex:
            probs.append("%sentry %d does not restore: %s" % (label, k, ex))
            continue
        wf = wellformed(t, idxs)
        if wf:
            probs.append("%sentry %d restores to a malformed/incomplete tree: %s" % (label, k, wf[0]))
            continue
        td = TreeJointDistribution(FSCRPDistribution(e["alpha"]))
        v = float(td.log_p_one(t))
        if not (abs(v - float(e["log_p_one"])) <= 1e-8 * (1 + abs(v))):
            probs.append("%sentry %d (iter %r): recorded log_p_one %.12g, recomputed under recorded alpha %.6g: %.12g" % (label, k, e["iter"], e["log_p_one"], e["alpha"], v))
    return probs


def wired_case(item):
    """The whole run() wiring (file loading, per-chain generators, submission, collection, trace writer) for one
    configuration: every chain's recorded schedule and every entry's self-consistency, read back from the trace file."""
    import os

    cfg = dict(item)
    res = {"item": item, "problems": [], "entries": 0, "chains": cfg["chains"]}
    repo = os.environ.get("VERIF_REPO", "/repo")
    args = dict(in_file=os.path.join(repo, "examples/data/mixing_small.tsv"), cluster_file=os.path.join(repo, "examples/data/mixing_small_clusters.tsv"),
                burnin=cfg["burnin"], num_iters=cfg["iters"], num_particles=cfg["N"], thin=cfg["thin"], num_chains=cfg["chains"], seed=cfg["seed"],
                grid_size=11, print_freq=1000, proposal=cfg["proposal"], concentration_update=cfg["conc_update"], outlier_prob=cfg["outlier_prob"],
                subtree_update_prob=cfg["subtree_prob"], num_samples_data_point=cfg["n_dp"], num_samples_prune_regraph=cfg["n_prg"])
    try:
        S.clear_caches()
        out = chain.run_wired(args, completion_order=cfg["order"])
    except Exception as e:
        res["problems"].append("run() raised %s: %s" % (type(e).__name__, str(e)[:150]))
        return res
    want = [i for i in range(cfg["iters"]) if i % cfg["thin"] == 0]
    if sorted(out) != list(range(cfg["chains"])):
        res["problems"].append("trace holds chains %r, the run had %d" % (sorted(out), cfg["chains"]))
    for c in sorted(out):
        r = out[c]
        if r.get("chain_num") != c:
            res["problems"].append("chain stored under key %r reports chain_num %r" % (c, r.get("chain_num")))
        trace = r["trace"]
        res["entries"] += len(trace)
        iters = [e["iter"] for e in trace]
        if iters[1:] != want:
            res["problems"].append("chain %d of %d: recorded iterations %r after the burn-in entry; num_iters=%d thin=%d requires %r" % (c, cfg["chains"], iters[1:], cfg["iters"], cfg["thin"], want))
        idxs = {d.idx for d in r["data"]}
        res["problems"] += entry_problems(trace, idxs, "chain %d " % c)[:2]
    return res


def cli_schedule_case(item):
    """The recording schedule through the real command line: `phyclone run --num-iters I --thin T --burnin B --num-chains C`."""
    import os
    from mc import clidrv

    iters, thin, burnin, chains, N = item
    res = {"item": item, "problems": [], "entries": 0}
    params = clidrv.run_params()
    d = clidrv.scratch("c15cli_")
    try:
        f, cf = clidrv.write_input(d, 3, 2, True)
        out = os.path.join(d, "trace.pkl.gz")
        vals = {"num_iters": iters, "thin": thin, "burnin": burnin, "num_chains": chains, "num_particles": N, "grid_size": 11, "seed": 3 + iters, "print_freq": 1000, "outlier_prob": 0.05}
        argv = ["run", "-i", f, "-o", out, "--cluster-file", cf]
        for k, v in vals.items():
            if k not in params:
                res["problems"].append("the command line no longer has an option for %s" % k)
                return res
            argv += [clidrv.opt_string(params[k]), str(v)]
        S.clear_caches()
        if (iters + thin + burnin) % 2 == 0:
            # the output path already holds the trace of an earlier, different run (a re-run with the same -o)
            earlier = ["run", "-i", f, "-o", out, "--cluster-file", cf, "--num-iters", "2", "--burnin", "1", "--num-particles", "2", "--grid-size", "11", "--seed", "99", "--print-freq", "1000"]
            code0, exc0, _ = clidrv.invoke(earlier)
            if exc0 is not None or code0 != 0:
                res["problems"].append("the earlier run failed: %s" % (exc0,))
                return res
        code, exc, stdout = clidrv.invoke(argv, completion_order=list(range(chains))[::-1])
        if exc is not None or code != 0:
            res["problems"].append("phyclone run failed: exit code %r, %s: %s" % (code, type(exc).__name__, str(exc)[:120]))
            return res
        results = clidrv.read_trace(out)
        want = [i for i in range(iters) if i % thin == 0]
        if sorted(results) != list(range(chains)):
            res["problems"].append("trace holds chains %r, asked for %d" % (sorted(results), chains))
        for c in sorted(results):
            tr = results[c]["trace"]
            res["entries"] += len(tr)
            got = [e["iter"] for e in tr]
            if got[1:] != want:
                res["problems"].append("chain %d of %d: recorded iterations %r after the burn-in entry; --num-iters %d --thin %d requires %r" % (c, chains, got[1:], iters, thin, want))
            res["problems"] += entry_problems(tr, {dp.idx for dp in results[c]["data"]}, "chain %d " % c)[:2]
    except Exception as e:
        res["problems"].append("harness: %s: %s" % (type(e).__name__, str(e)[:150]))
    finally:
        clidrv.cleanup(d)
    return res


def cli_schedule_items(tier):
    return [(iters, thin, burnin, chains, N) for iters in (1, 4, 7) for thin in (1, 2, 3) for burnin in (1, 2) for chains in (1, 2, 3) for N in ((2,) if tier == "quick" else (2, 4, 7))]


def wired_items(tier):
    out = []
    props = ["bootstrap", "semi-adapted", "fully-adapted"]
    k = 0
    for chains, order in ((1, None), (2, [0, 1]), (2, [1, 0]), (3, [2, 0, 1])):
        for iters, N in ((7, 3), (3, 6), (5, 5)):
            for thin, burnin in ((1, 0), (2, 2), (3, 1)) if tier == "thorough" or chains > 1 else ((2, 2),):
                k += 1
                out.append(tuple(sorted(dict(chains=chains, order=order, iters=iters, N=N, thin=thin, burnin=burnin, seed=11 + k, proposal=props[k % 3], conc_update=bool(k % 2),
                                             outlier_prob=(0.01 if k % 3 == 0 else 0.0), subtree_prob=(0.5 if k % 4 == 0 else 0.0), n_dp=1 + k % 2, n_prg=1 + (k // 2) % 2).items())))
    return out


def _trace_explore(res, run, policy, bound):
    try:
        for p, (probs, ne, sig), choices, ndev in explore(run, policy=policy, max_deviations=bound):
            res["n"] += 1
            res["entries"] += ne
            if sig:
                res["distinct"].add(sig)
            if probs and len(res["problems"]) < 2:
                res["problems"].append({"problems": probs[:3], "choices": choices, "policy": policy})
    except Exception as e:
        res["problems"].append({"problems": ["explorer: %s: %s" % (type(e).__name__, e)], "choices": [], "policy": policy})
    res["distinct"] = len(res["distinct"])
    return res


def trace_items(tier):
    out = []
    props = ["bootstrap", "semi-adapted", "fully-adapted"]
    k = 0
    for iters in (1, 2, 3, 4):
        for thin in (1, 2, 3):
            for burnin in (1, 2):
                for (mt, step) in ((float("inf"), 0.0), (0.0, 0.0), (2.5, 1.0)):
                    for conc in (False, True):
                        prop = props[k % 3]
                        k += 1
                        base = dict(n=2, iters=iters, thin=thin, burnin=burnin, max_time=mt, clock_step=step, conc_update=conc, proposal=prop,
                                    outlier_prob=(0.3 if k % 2 else 0.0), subtree_prob=(0.5 if k % 4 in (0, 1) else 0.0))
                        for pol in ("first", "last", "likely", "unlikely"):
                            out.append((base, pol, 0))
                        if iters <= 2 and (tier == "thorough" or (thin == 1 and burnin == 1)):
                            out.append((base, "first", 1))
                        if tier == "thorough" and iters == 3:
                            out.append((dict(base, n=3), "likely", 1))
    # the real main loop from EVERY tree over 3 data points (any of them can come out of burn-in)
    for si in range(len(oracle.all_states(3, outliers=True))):
        prop = props[si % 3]
        cfg = dict(n=3, iters=2, thin=1, conc_update=bool(si % 2), proposal=prop, outlier_prob=0.3, subtree_prob=(1.0 if si % 4 < 3 else 0.0), start=si)
        out.append((cfg, "first", 0))
        out.append((cfg, "likely", 1))
        if tier == "thorough":
            out.append((cfg, "unlikely", 1))
    # subtree updates with outlier modelling on three data points: the only place where a recorded tree is
    # edited in place after it was recorded
    for prop in props:
        for iters in (2, 3):
            cfg = dict(n=3, iters=iters, thin=1, burnin=1, conc_update=(iters == 3), proposal=prop, outlier_prob=0.4, subtree_prob=1.0)
            for pol in ("first", "last", "likely", "unlikely"):
                out.append((cfg, pol, 1 if tier == "quick" else 2))
    return out


def main(tier, seed):
    chk = Check("C15", tier, seed)
    chk.rule = ("tree part: every state of the edit-history BFS: restore via dict / pickle / (every third level) the real gzip trace writer, compare "
                "names, parents, data, outliers, last-edited clone, index maps, per-clone vectors, log_p, log_p_one; then EVERY enabled edit on original "
                "and restored tree must agree. trace part: run_phyclone_chain under EnumRNG + virtual clock over iterations x thin x burn-in x time "
                "limit x concentration update x proposal, 4 default policies at deviation bound 0 and bound 1 on a subset; whole-run part: the real run() "
                "(input files, seeding, submission of 1/2/3 chains to an in-process executor in several completion orders, trace writer) over num_iters x num_particles x thin x burn-in, and the same through the command line (`phyclone run`, click, in-process); non-trivial = non-empty tree / "
                "config with >= 2 distinct recorded traces")
    chk.assumptions = ["after relabel_nodes labels are compared up to renaming (pre-order follows sibling order)", "with a finite time limit the recorded iterations must be a prefix of the multiples of thin",
                       "trace part is deviation-bounded, not exhaustive over random outcomes"]
    searches = [dict(n=3, dims=1, grid=3, kind="generic", depth=(5 if tier == "quick" else 12), cap=None),
                dict(n=4, dims=1, grid=3, kind="generic", depth=(3 if tier == "quick" else 4), cap=None, outlier=0.2),
                # complete trees over 4 data points after one (two) sampler moves: subtree cycles that shrink a 3-clone subtree leave gaps in the graph positions
                dict(n=4, dims=1, grid=3, kind="generic", depth=(5 if tier == "quick" else 6), cap=None, full_only=True)]
    for r in searches:
        c06.run_one(chk, r, seed, pid="C15", make_inv=make_invariant)
    items = trace_items(tier)
    nexec = 0
    for r in pool_imap(trace_case, items, chunksize=1):
        cfg, pol, bound = r["item"]
        nexec += r["n"]
        chk.transitions += r["n"]
        chk.traces_validated += r["n"]
        chk.bump("trace_entries_checked", r["entries"])
        if r["distinct"] >= 2:
            chk.nontrivial.add(json.dumps([cfg, pol, bound], sort_keys=True))
        for pr in r["problems"]:
            chk.violation({"sub": "trace", "what": pr["problems"][0].split(":")[0][:60], "proposal": cfg["proposal"], "conc_update": cfg["conc_update"]},
                          {"config": cfg, "problem": pr}, {"kind": "trace", "config": cfg, "choices": pr["choices"], "policy": pr["policy"]})
    # the run() wiring around the chains: one chain (in-process path) and several chains (submission path), every completion order class
    nw = 0
    for r in pool_imap(wired_case, wired_items(tier), chunksize=1):
        cfg = dict(r["item"])
        nw += 1
        chk.transitions += cfg["chains"]
        chk.traces_validated += cfg["chains"]
        chk.bump("trace_entries_checked", r["entries"])
        chk.nontrivial.add(json.dumps(["wired", cfg], sort_keys=True))
        for pr in r["problems"][:3]:
            chk.violation({"sub": "run-wiring", "what": pr.split(":")[0][:50], "chains": cfg["chains"]}, {"config": cfg, "problem": pr}, {"kind": "wired", "config": cfg})
    for r in pool_imap(cli_schedule_case, cli_schedule_items(tier), chunksize=2):
        nw += 1
        chk.transitions += r["item"][3]
        chk.traces_validated += r["item"][3]
        chk.bump("trace_entries_checked", r["entries"])
        chk.nontrivial.add(json.dumps(["cli", list(r["item"])]))
        for pr in r["problems"][:3]:
            chk.violation({"sub": "run-cli", "what": pr.split(":")[0][:50], "chains": r["item"][3]}, {"iters,thin,burnin,chains,particles": list(r["item"]), "problem": pr}, {"kind": "cli", "item": list(r["item"])})
    chk.note("whole_run_configs", nw)
    chk.note("chain_runs", nexec)
    chk.note("chain_configs", len(items))
    chk.exhaustive = False
    chk.caps.append("trace part: deviation bound 0 under 4 default policies for every config, bound 1 on the short-run subset")
    return chk.finish()


def replay(path):
    body = json.load(open(path))
    rp = body["replay"]
    if rp.get("kind") == "cli":
        r = cli_schedule_case(tuple(rp["item"]))
        print(r["problems"])
        return 1 if r["problems"] else 0
    if rp.get("kind") == "wired":
        r = wired_case(tuple(sorted(rp["config"].items())))
        print(r["problems"])
        return 1 if r["problems"] else 0
    if rp.get("kind") == "trace":
        from mc.enumrng import ScriptedRNG

        probs, ne, sig = make_trace_run(rp["config"])(ScriptedRNG(rp["choices"], policy=rp["policy"]))
        print("entries:", ne, "problems:", probs)
        return 1 if probs else 0
    return c06.replay(path, make_inv=make_invariant)
