"""C13: the concentration update is an exact Gibbs step for the CRP concentration.

(a) every draw GammaPriorConcentrationSampler.sample makes is recorded by the enumerating
generator over the whole (a, b, alpha, K, n, eta, Bernoulli outcome) grid and compared with the
Escobar-West formulas; (b) the run loop's extraction of K and n and the use of the new value
over every tree on <= 4 data points.
"""
import itertools
import json
import math

import numpy as np

from mc import oracle, stationarity as S
from mc.enumrng import explore, EnumRNG, QUANTILES
from mc.harness import Check, pool_imap


def sampler_case(item):
    """Representation-independent: however the code draws the mixture (Bernoulli draw or uniform comparison; scipy's or the
    generator's gamma), for every value of the auxiliary variable the exact probability of the shape-(a+K) component must be
    pi_eta, the gamma draw must have shape a+K-1+z and the returned value must be that draw divided by (b - log eta)."""
    a, b, alpha, K, n = item
    from phyclone.mcmc.concentration import GammaPriorConcentrationSampler
    from scipy import stats

    res = {"item": item, "n": 0, "problems": [], "outcomes": set()}

    def run(rng):
        s = GammaPriorConcentrationSampler(a, b, rng=rng)
        v = s.sample(alpha, K, n)
        return float(v), list(rng.draws), rng.prob

    mass = {}  # eta quantile index -> {z: probability}
    try:
        for p, (v, draws, _), choices, _ in explore(run):
            res["n"] += 1
            res["outcomes"].add(round(v, 12))
            cont = [d for d in draws if d[0] in ("beta", "standard_gamma", "gamma")]
            if not cont or cont[0][0] != "beta":
                res["problems"].append("the first continuous draw is %r, expected the auxiliary Beta variable" % (cont[:1],))
                break
            (ba, bb) = cont[0][1]
            if abs(ba - (alpha + 1)) > 1e-12 * (1 + alpha) or abs(bb - n) > 1e-12:
                res["problems"].append("auxiliary variable drawn from Beta(%r, %r), expected Beta(alpha+1=%r, n=%r)" % (ba, bb, alpha + 1, n))
                break
            gam = [d for d in cont[1:] if d[0] in ("standard_gamma", "gamma")]
            if len(gam) != 1 or len(cont) != 2:
                res["problems"].append("continuous draws %r, expected one Beta and one Gamma draw" % ([d[0] for d in cont],))
                break
            qi = choices[0]
            eta = float(stats.beta.ppf(QUANTILES[qi], alpha + 1, n))
            rate = b - math.log(eta)
            odds = (a + K - 1) / (n * rate)
            pi = odds / (1 + odds)
            shape = gam[0][1][0]
            base = a + K - 1
            if abs(shape - base) < 1e-12:
                z = 0
            elif abs(shape - (base + 1)) < 1e-12:
                z = 1
            else:
                res["problems"].append("gamma shape %r, expected %r or %r" % (shape, base, base + 1))
                break
            mass.setdefault(qi, {0: 0.0, 1: 0.0, "pi": pi})[z] += p
            g = float(stats.gamma.ppf(QUANTILES[choices[-1]], shape))
            if gam[0][0] == "gamma":
                scale = gam[0][1][1]
                if abs(scale * rate - 1.0) > 1e-10:
                    res["problems"].append("gamma scale %r, expected 1/(b - log eta) = %r" % (scale, 1.0 / rate))
                    break
            want = max(g / rate, 1e-10)
            if not abs(v - want) <= 1e-10 * (1 + want):
                res["problems"].append("new value %r, expected gamma draw / (b - log eta) = %r" % (v, want))
                break
        if not res["problems"]:
            for qi, m in mass.items():
                tot = m[0] + m[1]
                if tot <= 0 or abs(m[1] / tot - m["pi"]) > 1e-10:
                    res["problems"].append("mixture weight of the shape-(a+K) component is %r for eta quantile %d, expected %r (a=%g b=%g K=%d n=%d)" % (
                        m[1] / tot if tot else None, qi, m["pi"], a, b, K, n))
                    break
                if m["pi"] > 1e-12 and m["pi"] < 1 - 1e-12 and (m[0] == 0 or m[1] == 0):
                    res["problems"].append("only one mixture component is reachable for eta quantile %d" % qi)
                    break
            if len(mass) != len(QUANTILES):
                res["problems"].append("the auxiliary variable took %d of its %d alphabet values" % (len(mass), len(QUANTILES)))
    except Exception as e:
        res["problems"].append("raised %s: %s" % (type(e).__name__, e))
    res["outcomes"] = len(res["outcomes"])
    return res


def history_case(item):
    """Several updates by ONE sampler object, chained as the run loop chains them (the value returned by one call is the
    current value of the next; K and n change as the tree changes): the law parameters of every draw of every call must be
    those of Escobar-West for the CURRENT value - nothing may survive from an earlier call."""
    a, b, alpha0, seq, policy = item
    from phyclone.mcmc.concentration import GammaPriorConcentrationSampler

    res = {"item": item, "n": 0, "problems": []}

    def run(rng):
        s = GammaPriorConcentrationSampler(a, b, rng=rng)
        alpha = alpha0
        probs = []
        for k, (K, n) in enumerate(seq):
            mark = len(rng.draws)
            v = float(s.sample(alpha, K, n))
            cont = [d for d in rng.draws[mark:] if d[0] in ("beta", "standard_gamma", "gamma")]
            if K == 0:
                if len(cont) != 1 or cont[0][0] == "beta" or abs(cont[0][1][0] - a) > 1e-12:
                    probs.append("call %d (no clones): draws %r, expected one Gamma(a=%r) draw from the prior" % (k, cont, a))
            else:
                if not cont or cont[0][0] != "beta":
                    probs.append("call %d: first continuous draw %r, expected the auxiliary Beta variable" % (k, cont[:1]))
                else:
                    ba, bb = cont[0][1]
                    if abs(ba - (alpha + 1)) > 1e-12 * (1 + alpha) or abs(bb - n) > 1e-12:
                        probs.append("call %d of one sampler object: auxiliary variable drawn from Beta(%r, %r), the current value %r and n=%d require Beta(%r, %r)" % (k, ba, bb, alpha, n, alpha + 1, n))
                    gam = [d for d in cont[1:] if d[0] in ("standard_gamma", "gamma")]
                    if len(gam) != 1 or not (abs(gam[0][1][0] - (a + K - 1)) < 1e-12 or abs(gam[0][1][0] - (a + K)) < 1e-12):
                        probs.append("call %d: gamma draws %r, expected one with shape %r or %r" % (k, gam, a + K - 1, a + K))
            if not (v > 0 and math.isfinite(v)):
                probs.append("call %d returned %r" % (k, v))
                break
            alpha = v
        return probs

    try:
        for p, probs, choices, _ in explore(run, policy=policy, max_deviations=1):
            res["n"] += 1
            if probs and len(res["problems"]) < 2:
                res["problems"].append("%s (random choices %r)" % (probs[0], choices))
    except Exception as e:
        res["problems"].append("raised %s: %s" % (type(e).__name__, e))
    return res


def history_items(tier):
    steps = [(1, 3), (2, 3), (2, 5), (3, 5), (0, 2), (5, 5)]
    out = []
    for a, b in ((0.01, 0.01), (1.0, 3.0)):
        for L in ((2, 3) if tier == "quick" else (2, 3, 4)):
            for si, seq in enumerate(itertools.product(steps, repeat=L)):
                if L >= 3 and tier == "quick" and (si % 4):
                    continue
                for pol in (("first", "unlikely") if tier == "quick" else ("first", "last", "likely", "unlikely")):
                    out.append((a, b, 0.7, seq, pol))
    return out


def quadrature_side_check(a, b, K, n):
    """The reference mixture, integrated against Beta(eta | alpha+1, n), leaves
    p(alpha | K, n) ~ alpha^(a+K-1) e^(-b alpha) Gamma(alpha)/Gamma(alpha+n) invariant (side-check of the oracle)."""
    from scipy import integrate, stats, special

    def post(x):
        return math.exp((a + K - 1) * math.log(x) - b * x + special.gammaln(x) - special.gammaln(x + n))

    z, _ = integrate.quad(post, 0, np.inf, limit=200)

    def trans(x_new, x_old):
        def f(eta):
            rate = b - math.log(eta)
            odds = (a + K - 1) / (n * rate)
            pi = odds / (1 + odds)
            return stats.beta.pdf(eta, x_old + 1, n) * (pi * stats.gamma.pdf(x_new, a + K, scale=1 / rate) + (1 - pi) * stats.gamma.pdf(x_new, a + K - 1, scale=1 / rate))

        v, _ = integrate.quad(f, 0, 1, limit=200)
        return v

    worst = 0.0
    for x_new in (0.3, 1.1, 2.7):
        lhs, _ = integrate.quad(lambda xo: post(xo) / z * trans(x_new, xo), 0, np.inf, limit=200)
        worst = max(worst, abs(lhs - post(x_new) / z) / (post(x_new) / z))
    return worst


class SpySampler(object):
    def __init__(self, ret):
        self.calls = []
        self.ret = ret

    def sample(self, old, k, n):
        self.calls.append((old, k, n))
        return self.ret


def tree_case(item):
    n, si = item
    import phyclone.run as prun
    from phyclone.tree import FSCRPDistribution, TreeJointDistribution
    from phyclone.smc.swarm import Particle
    import phyclone.smc.kernels as Kmod
    from phyclone.smc.utils import RootPermutationDistribution

    states = oracle.all_states(n, outliers=True)
    s = states[si]
    data = oracle.make_data(n, grid=3, outlier_prob=0.2)
    res = {"item": item, "problems": [], "n": 0}
    K = len(s[0])
    n_in = sum(len(b) for b, _ in s[0])
    # the new value may be anything the sampler can return, down to its floor of 1e-10
    for alpha0, alpha1 in ((1.0, 2.7), (0.3, 0.011), (1.0, 1e-10), (0.5, 5e-9), (2.0, 350.0)):
        td = TreeJointDistribution(FSCRPDistribution(alpha0))
        tree = oracle.build(s, data)
        tree.relabel_nodes()
        # warm the caches at the old value first: the new value must not meet stale entries
        rng = np.random.default_rng(3)
        kernels = [getattr(Kmod, c)(td, rng, outlier_proposal_prob=0.1, perm_dist=RootPermutationDistribution()) for c in ("SemiAdaptedKernel", "FullyAdaptedKernel", "BootstrapKernel")]
        pp = Particle(0, None, tree, td, RootPermutationDistribution()) if n >= 1 else None
        extra = oracle.make_data(n + 1, grid=3, outlier_prob=0.2)[n]

        def sig(dist):
            if hasattr(dist, "_log_p"):
                return sorted((oracle.state_key(oracle.abstract(k.tree)), round(float(v), 9)) for k, v in dist._log_p.items())
            return None

        before = [sig(k.get_proposal_distribution(extra, pp, tree)) for k in kernels]
        spy = SpySampler(alpha1)
        try:
            prun.update_concentration_value(spy, tree, td)
        except Exception as e:
            res["problems"].append("update raised %s: %s" % (type(e).__name__, e))
            continue
        res["n"] += 1
        if len(spy.calls) != 1 or spy.calls[0][1] != K or spy.calls[0][2] != n_in or abs(spy.calls[0][0] - alpha0) > 0:
            res["problems"].append("update passed (old, K, n) = %r, expected (%r, %d, %d)" % (spy.calls, alpha0, K, n_in))
        if td.prior.alpha != alpha1 or abs(td.prior.log_alpha - math.log(alpha1)) > 1e-12:
            res["problems"].append("after the update alpha=%r log_alpha=%r, expected %r / %r" % (td.prior.alpha, td.prior.log_alpha, alpha1, math.log(alpha1)))
        for form, fn in (("one", td.log_p_one), ("marginal", td.log_p)):
            got = float(fn(tree))
            want = oracle.ref_log_joint(s, data, alpha1, form)
            if not abs(got - want) <= 1e-8 * (1 + abs(want)):
                res["problems"].append("density (%s) after the update = %.12g, model at the new alpha = %.12g" % (form, got, want))
        # proposal distributions and weights at the new value equal those of a fresh object at the new value
        td2 = TreeJointDistribution(FSCRPDistribution(alpha1))
        k2 = [getattr(Kmod, c)(td2, rng, outlier_proposal_prob=0.1, perm_dist=RootPermutationDistribution()) for c in ("SemiAdaptedKernel", "FullyAdaptedKernel", "BootstrapKernel")]
        pp1 = Particle(0, None, tree, td, RootPermutationDistribution())
        pp2 = Particle(0, None, tree, td2, RootPermutationDistribution())
        for ka, kb in zip(kernels, k2):
            da = ka.get_proposal_distribution(extra, pp1, tree)
            db = kb.get_proposal_distribution(extra, pp2, tree)
            if sig(da) != sig(db):
                res["problems"].append("%s proposal after the update differs from a fresh one at the new alpha" % type(ka).__name__)
        if abs(pp1.log_p_one - pp2.log_p_one) > 1e-9 or abs(pp1.log_p - pp2.log_p) > 1e-9:
            res["problems"].append("particle densities after the update differ from fresh ones at the new alpha")
    return res


def main(tier, seed):
    chk = Check("C13", tier, seed)
    chk.rule = ("(a) a,b in {0.01,1,3} x alpha in {1e-3,0.5,1,7} x all 1<=K<=n<=6: ALL executions of GammaPriorConcentrationSampler.sample under the enumerating "
                "generator (eta and the gamma draw over a 7-point quantile alphabet, both Bernoulli outcomes); the recorded law parameters must be Beta(alpha+1,n), "
                "Bernoulli(pi_eta), Gamma(a+K-1+z)/(b-log eta); (a') every sequence of 2-3 (4) chained updates by ONE sampler object over 6 (K,n) steps incl. K=0 (deviation bound 1 under 2 (4) policies): "
                "each call's draws have the law parameters of the current value; (b) every tree over n<=4 data points incl. outliers x five (old,new) alpha pairs incl. the 1e-10 floor: K, n extraction, "
                "stored value, densities and proposals at the new value; non-trivial = every case")
    chk.assumptions = ["continuous draws are represented by 7 quantiles each: the law parameters are checked exactly, the value of the draw only at those quantiles",
                       "that the Escobar-West mixture leaves p(alpha|K,n) invariant is mathematics about the reference model, side-checked by quadrature"]
    items = []
    for a in (0.01, 1.0, 3.0):
        for b in (0.01, 1.0, 3.0):
            for alpha in (1e-3, 0.5, 1.0, 7.0):
                for n in range(1, 7):
                    for K in range(1, n + 1):
                        items.append((a, b, alpha, K, n))
    for (a, b, alpha, K, n) in ((0.01, 0.01, 1.0, 1, 60), (1.0, 1.0, 0.2, 30, 60), (3.0, 0.01, 7.0, 60, 60), (0.01, 3.0, 1e-3, 2, 500), (1.0, 1.0, 50.0, 17, 40)):
        items.append((a, b, alpha, K, n))
    for r in pool_imap(sampler_case, items, chunksize=8):
        chk.transitions += r["n"]
        chk.traces_validated += r["n"]
        chk.states.add(("sampler",) + tuple(r["item"]))
        chk.nontrivial.add(("sampler",) + tuple(r["item"]))
        for pr in r["problems"][:2]:
            chk.violation({"sub": "sampler", "what": pr.split(",")[0][:40]}, {"a,b,alpha,K,n": list(r["item"]), "problem": pr}, {"kind": "sampler", "item": list(r["item"])})
    for r in pool_imap(history_case, history_items(tier), chunksize=8):
        chk.transitions += r["n"]
        chk.traces_validated += r["n"]
        chk.states.add(("history",) + tuple(r["item"][:4]))
        chk.nontrivial.add(("history",) + tuple(r["item"]))
        for pr in r["problems"][:2]:
            chk.violation({"sub": "sampler-history", "what": pr.split(":")[0][:40]}, {"a,b,alpha0,(K,n) sequence,policy": [list(x) if isinstance(x, tuple) else x for x in r["item"]], "problem": pr},
                          {"kind": "history", "item": [r["item"][0], r["item"][1], r["item"][2], [list(x) for x in r["item"][3]], r["item"][4]]})
    chk.caps.append("history part (a'): random outcomes of a chained sequence explored to deviation bound 1 under the listed default policies; parts (a) and (b) are exhaustive")
    w = max(quadrature_side_check(a, b, K, n) for (a, b, K, n) in ((1.0, 1.0, 2, 5), (0.01, 0.01, 3, 4), (3.0, 1.0, 1, 6)))
    chk.note("reference_model_quadrature_worst_relative_error", w)
    if w > 1e-5:
        chk.violation({"sub": "oracle"}, {"problem": "the reference mixture is not invariant by quadrature (%.2e): the oracle is wrong" % w}, {"kind": "oracle"})
    titems = [(n, si) for n in (1, 2, 3, 4) for si in range(len(oracle.all_states(n, outliers=True)))]
    if tier == "quick":
        titems = [t for t in titems if t[0] < 4 or t[1] % 3 == 0]
    for r in pool_imap(tree_case, titems, chunksize=4):
        chk.transitions += r["n"]
        chk.traces_validated += r["n"]
        chk.states.add(("tree",) + tuple(r["item"]))
        chk.nontrivial.add(("tree",) + tuple(r["item"]))
        for pr in r["problems"][:2]:
            s = oracle.all_states(r["item"][0], outliers=True)[r["item"][1]]
            chk.violation({"sub": "run-loop", "what": pr.split("=")[0][:40]}, {"tree": oracle.fmt_state(s), "problem": pr}, {"kind": "tree", "item": list(r["item"])})
    chk.sample({"a": 1.0, "b": 1.0, "alpha": 0.5, "K": 2, "n": 4, "executions": 7 * 2 * 7})
    return chk.finish()


def replay(path):
    body = json.load(open(path))
    rp = body["replay"]
    if rp["kind"] == "sampler":
        r = sampler_case(tuple(rp["item"]))
    elif rp["kind"] == "tree":
        r = tree_case(tuple(rp["item"]))
    elif rp["kind"] == "history":
        it = rp["item"]
        r = history_case((it[0], it[1], it[2], tuple(tuple(x) for x in it[3]), it[4]))
    else:
        return 1
    print(r["problems"])
    return 1 if r["problems"] else 0
