"""C16: the consensus tree contains exactly the clades with majority support."""
import itertools
import json
import math

import numpy as np

from mc import oracle
from mc.harness import Check, pool_imap
from mc.invariants import wellformed

THRESHOLDS = (0.5, 0.6, 0.75, 1.0)
_CACHE = {}


def universe(n, with_outliers):
    key = (n, with_outliers)
    if key not in _CACHE:
        data = oracle.make_data(n, grid=3, outlier_prob=0.2)
        for d in data:
            d.name = "m%d" % d.idx
        states = oracle.all_states(n, outliers=with_outliers)
        trees = [oracle.build(s, data) for s in states]
        clades = [oracle.clades_of(s) for s in states]
        _CACHE[key] = (data, states, trees, clades)
    return _CACHE[key]


def tree_clades(tree):
    out = set()
    nd = tree.node_data

    def rec(node):
        s = {dp.idx for dp in nd.get(node, [])}
        for c in tree.get_children(node):
            s |= rec(c)
        out.add(frozenset(s))
        return s

    for r in tree.roots:
        rec(r)
    return out


def judge(data, trees, clades, combo, weights, threshold, n):
    """One consensus call on the real code vs counting.  Returns problem string or None."""
    from phyclone.process_trace.consensus import get_consensus_tree
    from phyclone.process_trace.process_trace import get_tree_from_consensus_graph

    sup = {}
    if weights is None:
        w = [1.0 / len(combo)] * len(combo)
    else:
        w = weights
    for k, i in enumerate(combo):
        for c in clades[i]:
            sup[c] = sup.get(c, 0.0) + w[k]
    if any(abs(v - threshold) <= 1e-9 for v in sup.values()):
        return "skip"
    want = {c for c, v in sup.items() if v > threshold}
    try:
        if weights is None:
            g = get_consensus_tree([trees[i] for i in combo], data=data, threshold=threshold, weighted=False)
        else:
            g = get_consensus_tree([trees[i] for i in combo], data=data, threshold=threshold, weighted=True, log_p_list=np.array(w))
        t = get_tree_from_consensus_graph(data, g)
    except Exception as e:
        return "raised %s: %s" % (type(e).__name__, str(e)[:100])
    wf = wellformed(t, set(range(n)), allow_empty_clones=True)
    if wf:
        return "consensus tree malformed: %s" % wf[0]
    got = tree_clades(t)
    if got != want or len(t.nodes) != len(want):
        return "clades %r (%d clones), majority clades %r" % (sorted(map(sorted, got)), len(t.nodes), sorted(map(sorted, want)))
    covered = set().union(*want) if want else set()
    outl = {dp.idx for dp in t.outliers}
    if outl != set(range(n)) - covered:
        return "outliers %r, uncovered data points %r" % (sorted(outl), sorted(set(range(n)) - covered))
    return None


def chunk_work(item):
    n, with_outl, mode, combos = item
    data, states, trees, clades = universe(n, with_outl)
    res = {"n": 0, "skipped": 0, "problems": [], "retained_sizes": set()}
    for combo in combos:
        if mode == "counts":
            variants = [None]
        else:
            # distinct trees with scores from {-1,-2,-4}: weight = exp(score) normalised
            variants = []
            for sc in itertools.product((-1.0, -2.0, -4.0), repeat=len(combo)):
                e = [math.exp(x) for x in sc]
                z = sum(e)
                variants.append([x / z for x in e])
            if len(combo) == 3:
                variants = variants[::4]
        for wts in variants:
            for th in THRESHOLDS:
                r = judge(data, trees, clades, combo, wts, th, n)
                if r == "skip":
                    res["skipped"] += 1
                    continue
                res["n"] += 1
                if r is not None and len(res["problems"]) < 3:
                    res["problems"].append({"what": r, "combo": list(combo), "weights": wts, "threshold": th, "trees": [oracle.fmt_state(states[i]) for i in combo]})
    return {"item": (n, with_outl, mode, len(combos)), **res}


def e2e_alphabet():
    fs = frozenset

    def st(pairs, outl=()):
        return (fs((fs(b), fs(p) if p is not None else None) for b, p in pairs), fs(outl))

    return [st([((0,), None), ((1,), (0,)), ((2,), (1,))]), st([((0,), None), ((1,), (0,)), ((2,), (0,))]),
            st([((0,), None), ((1,), None), ((2,), None)]), st([((2,), None), ((1,), (2,)), ((0,), (1,))]),
            st([((0, 1), None)], outl=(2,))]


def e2e_chunk(item):
    """End to end: synthetic trace -> real writer -> write_consensus_results -> decode table + Newick."""
    import os
    import shutil
    from mc import traces
    from phyclone.process_trace import write_consensus_results

    seqs, n_trees = item[:2]
    shift = item[2] if len(item) > 2 else 0.0  # realistic traces score thousands of log units below zero: only differences matter
    data = traces.named_data(3, grid=3, outlier_prob=0.2)
    alpha = e2e_alphabet()[:n_trees]
    trees = [oracle.build(s, data) for s in alpha]
    alt = [oracle.build(s, data, reverse_siblings=True) for s in alpha]
    for t in trees + alt:
        t.relabel_nodes()
    scores = (-1.0 + shift, -2.0 + shift, -4.0 + shift)
    name_to_idx = {str(x.name): x.idx for x in data}
    res = {"n": 0, "skipped": 0, "problems": []}
    d = traces.scratch("c16_")
    try:
        for seq, split in seqs:
            ents = [(k // 3, scores[k % 3]) for k in seq]
            chains = {0: [((trees if j % 2 == 0 else alt)[t], sc) for j, (t, sc) in enumerate(ents[:split])]}
            if split < len(ents):
                chains[1] = [(trees[t], sc) for (t, sc) in ents[split:]]
            path = traces.write_trace(d, traces.make_results(data, ["S"], chains))
            cnt = {}
            best = {}
            for t, sc in ents:
                cnt[t] = cnt.get(t, 0) + 1
                best[t] = max(best.get(t, -1e300), sc)
            for mode in ("counts", "joint-likelihood"):
                if mode == "counts":
                    w = {t: c / len(ents) for t, c in cnt.items()}
                else:
                    top = max(best.values())
                    raw = {t: cnt[t] * math.exp(best[t] - top) for t in cnt}
                    z = sum(raw.values())
                    w = {t: v / z for t, v in raw.items()}
                sup = {}
                for t, wt in w.items():
                    for c in oracle.clades_of(alpha[t]):
                        sup[c] = sup.get(c, 0.0) + wt
                for th in (0.5, 0.6, 0.75):
                    if any(abs(v - th) <= 1e-9 for v in sup.values()):
                        res["skipped"] += 1
                        continue
                    want = {c for c, v in sup.items() if v > th}
                    tb, tr = os.path.join(d, "c.tsv"), os.path.join(d, "c.nwk")
                    res["n"] += 1
                    ctx = {"entries": [[["chain", "fork", "separate", "reverse-chain", "pair+outlier"][t], sc] for t, sc in ents], "split": split, "mode": mode, "threshold": th, "score_shift": shift}
                    try:
                        traces.quiet(write_consensus_results, path, tb, tr, consensus_threshold=th, weight_type=mode)
                        dec, dp = traces.decode(traces.read_table(tb), open(tr).read().strip(), name_to_idx)
                    except Exception as e:
                        res["problems"].append({"what": "consensus command raised %s: %s" % (type(e).__name__, str(e)[:100]), "trace": ctx})
                        continue
                    got = traces.decoded_clades(dec)
                    covered = set().union(*want) if want else set()
                    if dp or got != want or set(dec["outliers"]) != set(range(3)) - covered:
                        res["problems"].append({"what": "written consensus has clades %r outliers %r; majority clades %r" % (sorted(map(sorted, got)), sorted(dec["outliers"]), sorted(map(sorted, want))), "trace": ctx})
            if len(res["problems"]) > 4:
                break
    finally:
        shutil.rmtree(d, ignore_errors=True)
    return res


def e2e_items(tier):
    n_trees, L = (5, 3) if tier == "quick" else (5, 4)
    syms = n_trees * 3
    seqs = []
    for l in range(1, L + 1):
        for seq in itertools.product(range(syms), repeat=l):
            if l == 4 and (seq[0] + seq[1] * 2 + seq[2] * 3 + seq[3]) % 4:
                continue
            for split in ((l,) if l == 1 else (l, 1)):
                seqs.append((seq, split))
    out = [(seqs[i:i + 60], n_trees) for i in range(0, len(seqs), 60)]
    # the same traces with every score lowered by a constant (supports are unchanged): scores of real runs are far below -745
    out += [(c[0], c[1], -1200.0) for c in out[::3]] + [(c[0], c[1], -40000.0) for c in out[1::6]]
    return out


def large_chunk(item):
    """Consensus over many larger trees (8 data points, deep and wide shapes, relabelled copies)."""
    lo, hi = item
    from mc.checks.c02 import large_forests, forest_state

    n = 8
    data = oracle.make_data(n, grid=2, outlier_prob=0.2)
    for d in data:
        d.name = "m%d" % d.idx
    states = []
    for par in [p_ for p_ in large_forests() if len(p_) == 8] + [tuple([-1] + [0] * 3 + [1] * 2 + [4] * 2), tuple([-1, 0, 0, 1, 1, 2, 2, -1])]:
        base, _ = forest_state(par, [1] * 8)
        for a in (1, 3, 5):
            for r_ in (0, 2, 5):
                perm = {i: (a * i + r_) % n for i in range(n)}
                st = frozenset((frozenset(perm[i] for i in b), (frozenset(perm[i] for i in p_) if p_ is not None else None)) for b, p_ in base[0])
                states.append((st, frozenset()))
    trees = [oracle.build(s_, data) for s_ in states]
    clades = [oracle.clades_of(s_) for s_ in states]
    res = {"n": 0, "skipped": 0, "problems": []}
    T = len(states)
    for k in range(lo, hi):
        size = 3 + (k % 13)
        combo = tuple(sorted(((k * 7 + j * (1 + k % 5)) % T) for j in range(size)))
        for th in THRESHOLDS:
            r = judge(data, trees, clades, combo, None, th, n)
            if r == "skip":
                res["skipped"] += 1
                continue
            res["n"] += 1
            if r is not None and len(res["problems"]) < 3:
                res["problems"].append({"what": r, "combo": list(combo), "weights": None, "threshold": th, "trees": [oracle.fmt_state(states[i]) for i in combo[:3]]})
    return {"item": (8, False, "counts-large", hi - lo), **res}


def orbit_representatives(n, states, size):
    """One multiset per orbit under relabelling of the data points."""
    perms = list(itertools.permutations(range(n)))
    index = {s: i for i, s in enumerate(states)}

    def act(s, p):
        st, outl = s
        return (frozenset((frozenset(p[i] for i in b), (frozenset(p[i] for i in q) if q is not None else None)) for b, q in st), frozenset(p[i] for i in outl))

    img = [[index[act(s, p)] for s in states] for p in perms]
    reps = []
    for combo in itertools.combinations_with_replacement(range(len(states)), size):
        best = min(tuple(sorted(im[i] for i in combo)) for im in img)
        if best == combo:
            reps.append(combo)
    return reps


def plan(tier):
    items = []

    def add(n, with_outl, mode, combos, chunk=1500):
        combos = list(combos)
        for i in range(0, len(combos), chunk):
            items.append((n, with_outl, mode, combos[i:i + chunk]))

    n3o = len(oracle.all_states(3, outliers=True))
    n3 = len(oracle.all_states(3))
    n4 = len(oracle.all_states(4))
    for size in (1, 2, 3):
        add(3, True, "counts", itertools.combinations_with_replacement(range(n3o), size))
    add(3, False, "counts", itertools.combinations_with_replacement(range(n3), 4))
    if tier == "thorough":
        add(3, False, "counts", itertools.combinations_with_replacement(range(n3), 5))
    for size in (1, 2):
        add(4, False, "counts", itertools.combinations_with_replacement(range(n4), size))
    # weighted mode: sets of distinct trees
    for size in (1, 2, 3):
        add(3, True, "weighted", itertools.combinations(range(n3o), size), chunk=300)
    add(4, False, "weighted", itertools.combinations(range(n4), 2), chunk=400)
    return items


def plan_n4_triples(tier):
    data, states, trees, clades = universe(4, False)
    if tier == "quick":
        reps = orbit_representatives(4, states, 3)
        note = "n=4 multisets of 3 trees: one representative per orbit under relabelling of the data points (%d orbits)" % len(reps)
    else:
        reps = list(itertools.combinations_with_replacement(range(len(states)), 3))
        note = "n=4 multisets of 3 trees: all %d multisets" % len(reps)
    items = []
    for i in range(0, len(reps), 4000):
        items.append((4, False, "counts", reps[i:i + 4000]))
    return items, note


def main(tier, seed):
    chk = Check("C16", tier, seed)
    chk.rule = ("counts mode: every multiset of <=3 trees over all 42 trees on 3 data points (outliers incl.), of 4 (5) trees over the 26 without outliers, of <=2 trees over "
                "all 243 trees on 4 data points, and of 3 trees on 4 data points (orbit representatives quick / all thorough); weighted mode: every set of <=3 "
                "distinct trees (n=3) / 2 (n=4) x scores {-1,-2,-4}; x thresholds {0.5,0.6,0.75,1.0}; get_consensus_tree -> get_tree_from_consensus_graph on the real "
                "code vs support counting; non-trivial = every non-skipped case")
    chk.assumptions = ["cases with a support within 1e-9 of the threshold are skipped, as the property allows",
                       "quick tier n=4 triples assume the consensus code is equivariant under renaming data indices (orbit representatives)"]
    items = plan(tier)
    trip, note = plan_n4_triples(tier)
    chk.note("n4_triples", note)
    items += trip
    for r in pool_imap(chunk_work, items, chunksize=1):
        chk.transitions += r["n"]
        chk.traces_validated += r["n"]
        chk.n_states_extra += r["item"][3]
        chk.n_nontrivial_extra += r["n"]
        chk.bump("skipped_at_threshold", r["skipped"])
        for pr in r["problems"]:
            empties = pr["what"].startswith("clades")
            chk.violation({"sub": "consensus", "n": r["item"][0], "mode": r["item"][2], "n_trees": len(pr["combo"]), "what": pr["what"].split(":")[0][:30] if not empties else "clade set differs"},
                          pr, {"n": r["item"][0], "outliers": r["item"][1], "combo": pr["combo"], "weights": pr["weights"], "threshold": pr["threshold"]})
    for r in pool_imap(large_chunk, [(i, i + 25) for i in range(0, 400 if tier == "quick" else 4000, 25)], chunksize=1):
        chk.transitions += r["n"]
        chk.traces_validated += r["n"]
        chk.n_nontrivial_extra += r["n"]
        chk.bump("large_consensus_cases", r["n"])
        for pr in r["problems"]:
            chk.violation({"sub": "consensus-large", "what": pr["what"].split(":")[0][:30]}, pr, {"large": pr["combo"], "threshold": pr["threshold"]})
    # end to end through the trace file and the consensus command (topology dictionary, weights, table writer)
    e2e = 0
    for r in pool_imap(e2e_chunk, e2e_items(tier), chunksize=1):
        chk.transitions += r["n"]
        chk.traces_validated += r["n"]
        chk.n_nontrivial_extra += r["n"]
        e2e += r["n"]
        chk.bump("skipped_at_threshold", r["skipped"])
        for pr in r["problems"][:2]:
            chk.violation({"sub": "consensus-command", "mode": pr["trace"]["mode"], "what": pr["what"].split(":")[0][:30]}, pr, {"e2e": pr["trace"]})
    chk.note("end_to_end_consensus_commands", e2e)
    data, states, trees, clades = universe(4, False)
    chk.sample({"trees": [oracle.fmt_state(states[i]) for i in (118, 124, 213)], "threshold": 0.5, "mode": "counts"})
    return chk.finish()


def replay(path):
    body = json.load(open(path))
    rp = body["replay"]
    if "e2e" in rp:
        t = rp["e2e"]
        names = ["chain", "fork", "separate", "reverse-chain", "pair+outlier"]
        sh = float(t.get("score_shift", 0.0))
        seq = tuple(names.index(nm) * 3 + [round(x + sh, 6) for x in (-1.0, -2.0, -4.0)].index(round(sc, 6)) for nm, sc in t["entries"])
        r = e2e_chunk(([(seq, t["split"])], 5, sh))
        print(r["problems"])
        return 1 if r["problems"] else 0
    data, states, trees, clades = universe(rp["n"], rp["outliers"])
    r = judge(data, trees, clades, tuple(rp["combo"]), rp["weights"], rp["threshold"], rp["n"])
    print("trees:", [oracle.fmt_state(states[i]) for i in rp["combo"]], "threshold", rp["threshold"])
    print("result:", r)
    return 1 if r not in (None, "skip") else 0
