"""C20: an interrupted or truncated trace file is never read as a valid result.

Crash-point enumeration: the real writer's byte stream is recorded through an in-memory device;
EVERY byte prefix is handed to the three real readers, which must fail or produce exactly the
output of the complete file; ENOSPC is injected at EVERY write-call boundary of the real writer,
which must fail and leave one of those prefixes behind.
"""
import errno
import gzip
import io
import json
import os
import shutil
import time

from mc import oracle, traces
from mc.harness import Check, pool_imap


class RecordingFile(io.RawIOBase):
    """In-memory storage device: logs every write call; optionally fails the k-th with ENOSPC."""

    def __init__(self, fail_at=None):
        super().__init__()
        self.chunks = []
        self.fail_at = fail_at
        self.name = "trace.pkl.gz"

    def writable(self):
        return True

    def write(self, b):
        if self.fail_at is not None and len(self.chunks) >= self.fail_at:
            raise OSError(errno.ENOSPC, "No space left on device")
        self.chunks.append(bytes(b))
        return len(b)


class GzipShim(object):
    """Stands in for the `gzip` module inside phyclone.process_trace.process_trace while writing."""

    def __init__(self, device):
        self.device = device

    def GzipFile(self, filename=None, mode=None, *a, **k):
        # a writer may also open the file itself and hand it over as fileobj: that is the device as well (see open_shim)
        return gzip.GzipFile(filename="", mode=mode or "wb", fileobj=self.device, mtime=0)

    def open(self, *a, **k):
        raise RuntimeError("unexpected gzip.open in the writer")


def build_results(kind):
    if kind == "long-chain":
        # more than a thousand entries in one chain (writers that split long traces into blocks show only here)
        data = traces.named_data(2, grid=2, outlier_prob=0.2)
        states = oracle.all_states(2, outliers=True)
        dicts = [oracle.build(s_, data).to_dict() for s_ in states]
        chains = {0: [(dicts[(i * i + 3 * i) % len(dicts)], -1.0 - (i % 17) * 0.25) for i in range(1101)], 1: [(dicts[i % len(dicts)], -2.0 - (i % 5)) for i in range(7)]}
        return traces.make_results(data, ["S"], chains), None
    if kind in ("six-chains", "nine-chains"):
        # many chains (writers that group chains into blocks show only beyond their group size); chain 0 first and last
        data = traces.named_data(3, grid=3, outlier_prob=0.2)
        states = oracle.all_states(3, outliers=True)
        nch = 6 if kind == "six-chains" else 9
        chains = {}
        k = 5
        for c in range(nch):
            chains[c] = []
            for e in range(1 + (c % 2)):
                k = (k * 29 + 7) % len(states)
                chains[c].append((oracle.build(states[k], data), -1.0 - 0.41 * ((k * 5) % 11)))
        order = list(range(nch)) if kind == "six-chains" else list(range(1, nch)) + [0]
        return traces.make_results(data, ["S"], chains, insertion_order=order), None
    if kind in ("four-chains", "many-entries", "big-data"):
        data = traces.named_data(4, dims=2, grid=(101 if kind == "big-data" else 5), outlier_prob=0.2)
        states = oracle.all_states(4, outliers=True)
        nch, nent = {"four-chains": (4, 3), "many-entries": (2, 12), "big-data": (3, 2)}[kind]
        chains = {}
        k = 7
        for c in range(nch):
            chains[c] = []
            for e in range(nent):
                k = (k * 31 + 11) % len(states)
                chains[c].append((oracle.build(states[k], data), -1.0 - 0.37 * ((k * 7) % 13)))
        return traces.make_results(data, ["S0", "S1"], chains), None
    if kind == "clustered":
        data, crows = traces.clustered_setup(3, (1, 2, 1), grid=3, outlier_prob=0.2)
    else:
        data, crows = traces.named_data(3, grid=3, outlier_prob=0.2), None
    states = oracle.all_states(3, outliers=True)
    pick = [5, 17, 30, 5, 41]
    trees = [oracle.build(states[i], data) for i in pick]
    if kind == "two-chains":
        chains = {0: [(trees[0], -3.0), (trees[1], -2.0)], 1: [(trees[2], -2.5), (trees[3], -1.0), (trees[4], -4.0)]}
    else:
        chains = {0: [(trees[0], -3.0), (trees[1], -2.0), (trees[3], -2.5)]}
    return traces.make_results(data, ["S"], chains), crows


def write_with_device(kind, device, d):
    """Run the real writer against the given device."""
    import phyclone.process_trace.process_trace as pt

    results, crows = build_results(kind)
    cf = None
    if crows is not None:
        cf = os.path.join(d, "clusters.tsv")
        with open(cf, "w") as fh:
            fh.write("mutation_id\tcluster_id\n" + "".join("%s\t%d\n" % r for r in crows))
    old = pt.gzip
    target = os.path.join(d, "unused.pkl.gz")

    def open_shim(file, mode="r", *a, **k):
        if file == target and "w" in mode:
            return device
        return open(file, mode, *a, **k)

    pt.gzip = GzipShim(device)
    pt.open = open_shim
    device.close = lambda: None  # several writers may be stacked on the one device
    try:
        pt.create_main_run_output(cf, target, results)
    finally:
        pt.gzip = old
        del pt.open
    if os.path.exists(target) and os.path.getsize(target):
        raise RuntimeError("harness: the writer bypassed the in-memory device")


def run_readers(path, outdir):
    """-> {reader: ('EXC', type) | ('OUT', {filename: bytes})}"""
    from phyclone.process_trace import write_map_results, write_consensus_results, write_topology_report

    out = {}
    jobs = {
        "map": lambda: write_map_results(path, os.path.join(outdir, "m.tsv"), os.path.join(outdir, "m.nwk")),
        "consensus": lambda: write_consensus_results(path, os.path.join(outdir, "c.tsv"), os.path.join(outdir, "c.nwk")),
        "topology-report": lambda: write_topology_report(path, os.path.join(outdir, "t.tsv")),
    }
    for name, fn in jobs.items():
        for f in os.listdir(outdir):
            os.remove(os.path.join(outdir, f))
        try:
            traces.quiet(fn)
        except BaseException as e:
            if isinstance(e, (KeyboardInterrupt, SystemExit)):
                raise
            out[name] = ("EXC", type(e).__name__)
            continue
        files = {}
        for f in sorted(os.listdir(outdir)):
            with open(os.path.join(outdir, f), "rb") as fh:
                files[f] = fh.read()
        out[name] = ("OUT", files)
    return out


def decompressed(b):
    """Bytes the gzip stream `b` (possibly several members, possibly cut short) decompresses to."""
    import zlib

    out, data = b"", b
    while data:
        d = zlib.decompressobj(31)
        try:
            out += d.decompress(data)
        except zlib.error:
            return out
        if not d.eof:
            return out
        data = d.unused_data
    return out


def prefix_work(item):
    kind, lo, hi = item
    d = traces.scratch("c20_")
    res = {"item": item, "n": 0, "raised": 0, "identical": 0, "problems": [], "exc_types": {}}
    try:
        dev = RecordingFile()
        write_with_device(kind, dev, d)
        stream = b"".join(dev.chunks)
        path = os.path.join(d, "trace.pkl.gz")
        outdir = os.path.join(d, "out")
        os.mkdir(outdir)
        with open(path, "wb") as fh:
            fh.write(stream)
        full = run_readers(path, outdir)
        payload = decompressed(stream)
        for name, r in full.items():
            if r[0] != "OUT":
                res["problems"].append({"what": "reader %s fails on the complete file: %s" % (name, r[1]), "prefix": len(stream)})
                return res
        for L in (lo if hi is None else range(lo, min(hi, len(stream)))):
            with open(path, "wb") as fh:
                fh.write(stream[:L])
            got = run_readers(path, outdir)
            for name, r in got.items():
                res["n"] += 1
                if r[0] == "EXC":
                    res["raised"] += 1
                    res["exc_types"][r[1]] = res["exc_types"].get(r[1], 0) + 1
                elif r[1] == full[name][1] and decompressed(stream[:L]) == payload:
                    res["identical"] += 1  # only check sums / trailer bytes are missing: every written entry is in the prefix
                elif r[1] == full[name][1]:
                    res["problems"].append({"what": "reader %s produced the complete file's results from a trace cut at byte %d of %d, which does not contain all of the written data" % (name, L, len(stream)), "prefix": L})
                else:
                    res["problems"].append({"what": "reader %s produced results from a trace cut at byte %d of %d that differ from the complete file's" % (name, L, len(stream)), "prefix": L})
    except Exception as e:
        res["problems"].append({"what": "harness: %s: %s" % (type(e).__name__, e), "prefix": -1})
    finally:
        shutil.rmtree(d, ignore_errors=True)
    return res


def enospc_work(kind):
    d = traces.scratch("c20e_")
    res = {"kind": kind, "n": 0, "problems": [], "boundaries": 0}
    try:
        dev = RecordingFile()
        write_with_device(kind, dev, d)
        chunks = dev.chunks
        stream = b"".join(chunks)
        res["boundaries"] = len(chunks)
        for k in range(len(chunks)):
            dev2 = RecordingFile(fail_at=k)
            res["n"] += 1
            try:
                write_with_device(kind, dev2, d)
                res["problems"].append({"what": "writer reported success although write call %d of %d failed with ENOSPC" % (k, len(chunks)), "prefix": k})
            except OSError as e:
                left = b"".join(dev2.chunks)
                if not stream.startswith(left) or len(left) >= len(stream):
                    res["problems"].append({"what": "file left behind after ENOSPC at write call %d is not a proper prefix of the complete stream" % k, "prefix": k})
            except Exception as e:
                left = b"".join(dev2.chunks)
                if not stream.startswith(left):
                    res["problems"].append({"what": "ENOSPC at write call %d surfaced as %s and left a non-prefix" % (k, type(e).__name__), "prefix": k})
    except Exception as e:
        res["problems"].append({"what": "harness: %s: %s" % (type(e).__name__, e), "prefix": -1})
    finally:
        shutil.rmtree(d, ignore_errors=True)
    return res


class SessionDevice(object):
    """Storage as the whole RUN sees it: every time the output file is opened for writing it is truncated and a new write
    session starts; the content after a crash is what the current session has written so far."""

    def __init__(self):
        self.sessions = []

    def open_session(self):
        dev = RecordingFile()
        dev.close = lambda: None
        self.sessions.append(dev)
        return dev


def run_level_work(item):
    """Crash points of a whole multi-chain run(): the real run() (in-process pool, given completion order) writes through the
    session device; after every write call of every session the file content is handed to the three readers."""
    import phyclone.process_trace.process_trace as pt
    from mc import clidrv
    import phyclone.run as prun
    import contextlib
    import io

    chains, order = item
    res = {"item": item, "n": 0, "raised": 0, "identical": 0, "problems": [], "sessions": 0}
    d = traces.scratch("c20r_")
    try:
        f, cf = clidrv.write_input(d, 3, 1, False)
        target = os.path.join(d, "trace.pkl.gz")
        store = SessionDevice()

        class Shim(object):
            def GzipFile(self, filename=None, mode=None, *a, **k):
                if mode and "r" in mode:
                    return gzip.GzipFile(filename, mode, *a, **k)
                fo = k.get("fileobj")
                dev = fo if isinstance(fo, RecordingFile) else store.open_session()
                return gzip.GzipFile(filename="", mode="wb", fileobj=dev, mtime=0)

        def open_shim(file, mode="r", *a, **k):
            if file == target and "w" in mode:
                return store.open_session()
            return open(file, mode, *a, **k)

        old = pt.gzip
        pt.gzip = Shim()
        pt.open = open_shim
        try:
            with clidrv.inprocess_pool(list(order)), contextlib.redirect_stdout(io.StringIO()):
                prun.run(in_file=f, out_file=target, burnin=1, num_iters=3, num_particles=2, grid_size=11, seed=9, num_chains=chains, print_freq=1000)
        finally:
            pt.gzip = old
            del pt.open
        if os.path.exists(target) and os.path.getsize(target):
            res["problems"].append({"what": "harness: the run wrote its output outside the in-memory device", "state": None})
            return res
        sessions = [b"".join(s_.chunks) for s_ in store.sessions]
        res["sessions"] = len(sessions)
        if not sessions:
            res["problems"].append({"what": "the run wrote nothing", "state": None})
            return res
        final = sessions[-1]
        payload = decompressed(final)
        path = os.path.join(d, "crash.pkl.gz")
        outdir = os.path.join(d, "out")
        os.mkdir(outdir)
        with open(path, "wb") as fh:
            fh.write(final)
        full = run_readers(path, outdir)
        for name, r in full.items():
            if r[0] != "OUT":
                res["problems"].append({"what": "reader %s fails on the file a complete run wrote: %s" % (name, r[1]), "state": None})
                return res
        states = []
        for k, s_ in enumerate(store.sessions):
            acc = b""
            for c in s_.chunks:
                acc += c
                if not (k == len(sessions) - 1 and acc == final):
                    states.append((k, len(acc), acc))
        for k, L, content in states:
            with open(path, "wb") as fh:
                fh.write(content)
            got = run_readers(path, outdir)
            for name, r in got.items():
                res["n"] += 1
                if r[0] == "EXC":
                    res["raised"] += 1
                elif r[1] == full[name][1] and decompressed(content) == payload:
                    res["identical"] += 1
                else:
                    res["problems"].append({"what": "a run of %d chains killed during write session %d of %d (after %d bytes of it) leaves a file from which reader %s produces results" % (
                        chains, k + 1, len(sessions), L, name), "state": [k, L]})
            if len(res["problems"]) >= 3:
                break
    except Exception as e:
        res["problems"].append({"what": "harness: %s: %s" % (type(e).__name__, str(e)[:150]), "state": None})
    finally:
        shutil.rmtree(d, ignore_errors=True)
    return res


def rewrite_work(item):
    """A run that writes its trace over an EXISTING (longer) trace at the same path and is cut short: the real writer, a real
    file.  Whether the writer truncates the old file is observed from a complete rewrite; the crash states are then
    new[:P] (+ the old file's bytes from P on, if the writer overwrites in place) for every byte P."""
    import phyclone.process_trace.process_trace as pt

    old_kind, new_kind = item
    res = {"item": item, "n": 0, "raised": 0, "problems": [], "truncates": None}
    d = traces.scratch("c20w_")

    class Mtime0(object):
        def GzipFile(self, *a, **k):
            k.setdefault("mtime", 0)
            return gzip.GzipFile(*a, **k)

        def __getattr__(self, name):
            return getattr(gzip, name)

    old_gzip = pt.gzip
    pt.gzip = Mtime0()
    try:
        path = os.path.join(d, "trace.pkl.gz")
        os.mkdir(os.path.join(d, "ref"))
        fresh = os.path.join(d, "ref", "trace.pkl.gz")  # same base name: gzip stores it in the header
        r_old, _ = build_results(old_kind)
        r_new, _ = build_results(new_kind)
        pt.create_main_run_output(None, path, r_old)
        old = open(path, "rb").read()
        pt.create_main_run_output(None, fresh, r_new)
        new = open(fresh, "rb").read()
        pt.create_main_run_output(None, path, r_new)
        after = open(path, "rb").read()
    except Exception as e:
        res["problems"].append({"what": "harness: %s: %s" % (type(e).__name__, str(e)[:150])})
        shutil.rmtree(d, ignore_errors=True)
        return res
    finally:
        pt.gzip = old_gzip
    try:
        res["truncates"] = (after == new)
        # a crash INSIDE the writer while the path holds the earlier trace: the pickler stops half way (whatever else the writer
        # did before - moving the old file aside, opening - has happened); the readers get the directory as it then is
        crash_dir = os.path.join(d, "crash")
        os.mkdir(crash_dir)
        cpath = os.path.join(crash_dir, "trace.pkl.gz")
        with open(cpath, "wb") as fh:
            fh.write(old)

        class HalfPickle(object):
            def dump(self, obj, fh, *a, **k):
                import pickle as _p

                b = _p.dumps(obj, *a, **k)
                fh.write(b[: len(b) // 2])
                raise OSError(errno.ENOSPC, "No space left on device")

            def __getattr__(self, name):
                import pickle as _p

                return getattr(_p, name)

        old_pickle = pt.pickle
        pt.gzip, pt.pickle = Mtime0(), HalfPickle()
        try:
            try:
                pt.create_main_run_output(None, cpath, r_new)
                res["problems"].append({"what": "the writer reported success although the pickler failed half way"})
            except Exception:
                pass
        finally:
            pt.gzip, pt.pickle = old_gzip, old_pickle
        outdir2 = os.path.join(d, "out2")
        os.mkdir(outdir2)
        full_new = run_readers(fresh, outdir2)
        left = open(cpath, "rb").read() if os.path.exists(cpath) else b""
        # the failed write as the writer's own clean-up left it, and as a killed process would have left it (cut short at a few points)
        cuts = [None] + sorted({0, 1, len(left) // 4, len(left) // 2, max(0, len(left) - 9), max(0, len(left) - 1)})
        for P in cuts:
            if P is not None:
                with open(cpath, "wb") as fh:
                    fh.write(left[:P])
            got = run_readers(cpath, outdir2)
            for name, r in got.items():
                res["n"] += 1
                if r[0] == "EXC":
                    res["raised"] += 1
                elif r[1] != full_new[name][1]:
                    res["problems"].append({"what": "a write over an existing trace that stopped half way (file %s) leaves a directory from which reader %s produces results (files present: %r)" % (
                        "as the writer left it" if P is None else "cut at byte %d of %d" % (P, len(left)), name, sorted(os.listdir(crash_dir)))})
            if len(res["problems"]) >= 3:
                break
        if after == new:
            return res  # the remaining crash states of such a writer are the byte prefixes enumerated above
        if not (len(after) >= len(new) and after[:len(new)] == new):
            res["problems"].append({"what": "a complete rewrite over an existing trace left neither the new stream nor the new stream followed by old bytes"})
            return res
        outdir = os.path.join(d, "out")
        os.mkdir(outdir)
        full = run_readers(fresh, outdir)
        payload = decompressed(new)
        for P in range(0, len(new)):
            content = new[:P] + old[P:]
            with open(path, "wb") as fh:
                fh.write(content)
            got = run_readers(path, outdir)
            for name, r in got.items():
                res["n"] += 1
                if r[0] == "EXC":
                    res["raised"] += 1
                elif not (r[1] == full[name][1] and decompressed(content) == payload):
                    res["problems"].append({"what": "the writer overwrites an existing trace in place: cut after %d of %d bytes it leaves a file from which reader %s produces results (of the earlier run)" % (P, len(new), name)})
            if len(res["problems"]) >= 3:
                break
    except Exception as e:
        res["problems"].append({"what": "harness: %s: %s" % (type(e).__name__, str(e)[:150])})
    finally:
        shutil.rmtree(d, ignore_errors=True)
    return res


def stream_len(kind):
    d = traces.scratch("c20l_")
    try:
        dev = RecordingFile()
        write_with_device(kind, dev, d)
        return sum(len(c) for c in dev.chunks), len(dev.chunks)
    finally:
        shutil.rmtree(d, ignore_errors=True)


def main(tier, seed):
    chk = Check("C20", tier, seed, level="fault_enumeration")
    chk.rule = ("traces {one chain, two chains, clustered, six chains, nine chains (chain 0 written last), one chain of 1101 entries} written by the real create_main_run_output into an in-memory device; EVERY byte prefix 0..len-1 read by "
                "write_map_results, write_consensus_results and write_topology_report in one process and at one path, after the complete file was read there (must raise, or - only when the prefix "
                "still decompresses to the complete payload - give output byte-identical to the complete file's); ENOSPC "
                "injected at EVERY write-call boundary of the writer; whole-run crash points: real run() with 1-3 chains (in-process pool) writing through a session device, the file "
                "content after every write call of every write session read by the three readers; rewrite over an existing longer trace (real file): if the writer does not truncate, every byte P with content new[:P]+old[P:]; a case is non-trivial when the prefix is non-empty")
    chk.assumptions = ["gzip header time stamp fixed to 0 so the stream is reproducible", "crash = truncation at a byte; torn writes inside one write call are covered because every byte prefix is enumerated"]
    kinds = ["one-chain", "two-chains", "clustered", "six-chains", "nine-chains"] + (["four-chains", "many-entries", "big-data"] if tier == "thorough" else [])
    items = []
    info = {}
    for k in kinds:
        n, nb = stream_len(k)
        info[k] = {"bytes": n, "write_calls": nb}
        step = max(1, n // 32 + 1)
        for lo in range(0, n, step):
            items.append((k, lo, lo + step))
    # the long trace: a systematic subset of its crash points (every `stride`-th byte and the whole tail)
    n, nb = stream_len("long-chain")
    stride = 41 if tier == "quick" else 7
    info["long-chain"] = {"bytes": n, "write_calls": nb, "crash_points": "every %d-th byte and the last 400 bytes" % stride}
    pts = sorted(set(range(0, n, stride)) | set(range(max(0, n - 400), n)))
    for i in range(0, len(pts), 40):
        items.append(("long-chain", pts[i:i + 40], None))
    chk.note("streams", info)
    exc = {}
    for r in pool_imap(prefix_work, items, chunksize=1):
        chk.evaluations += r["n"]
        chk.n_nontrivial_extra += r["n"] - (3 if (r["item"][1] == 0 or (isinstance(r["item"][1], list) and 0 in r["item"][1])) else 0)
        chk.bump("reader_runs_that_raised", r["raised"])
        chk.bump("reader_runs_identical_to_complete_file", r["identical"])
        for t, c in r["exc_types"].items():
            exc[t] = exc.get(t, 0) + c
        for pr in r["problems"][:3]:
            chk.violation({"sub": "truncated-read", "trace": r["item"][0]}, {"trace": r["item"][0], "problem": pr["what"]}, {"kind": r["item"][0], "prefix": pr["prefix"]})
    chk.note("exception_types", exc)
    # crash points of a whole run (the run decides when and how often the output file is written)
    ritems = [(1, (0,)), (2, (0, 1)), (3, (0, 2, 1)), (3, (2, 1, 0))]
    rinfo = []
    for r in pool_imap(run_level_work, ritems, chunksize=1):
        chk.evaluations += r["n"]
        chk.n_nontrivial_extra += r["n"]
        chk.bump("reader_runs_that_raised", r["raised"])
        rinfo.append({"chains": r["item"][0], "completion_order": list(r["item"][1]), "write_sessions": r["sessions"], "crash_states_x_readers": r["n"]})
        for pr in r["problems"][:3]:
            chk.violation({"sub": "run-level-crash", "chains": r["item"][0]}, {"chains": r["item"][0], "completion_order": list(r["item"][1]), "problem": pr["what"]}, {"run_level": [r["item"][0], list(r["item"][1])]})
    chk.note("whole_run_crash_points", rinfo)
    # a run cut short while writing over an existing trace
    winfo = []
    for r in pool_imap(rewrite_work, [("two-chains", "one-chain"), ("nine-chains", "six-chains")], chunksize=1):
        chk.evaluations += max(r["n"], 1)
        chk.n_nontrivial_extra += max(r["n"], 1)
        winfo.append({"old,new": list(r["item"]), "writer_truncates_the_existing_file": r["truncates"], "crash_states_x_readers": r["n"]})
        for pr in r["problems"][:3]:
            chk.violation({"sub": "rewrite-over-existing-trace"}, {"old,new": list(r["item"]), "problem": pr["what"]}, {"rewrite": list(r["item"])})
    chk.note("rewrite_over_existing_trace", winfo)
    for k in kinds + ["long-chain"]:
        r = enospc_work(k)
        chk.evaluations += r["n"]
        chk.n_nontrivial_extra += r["n"]
        chk.bump("enospc_points", r["n"])
        for pr in r["problems"][:3]:
            chk.violation({"sub": "enospc", "trace": k}, {"trace": k, "problem": pr["what"]}, {"kind": k, "enospc_at": pr["prefix"]})
    chk.sample({"trace": "two-chains", "bytes": info["two-chains"]["bytes"], "example_prefix": info["two-chains"]["bytes"] // 2, "readers": ["map", "consensus", "topology-report"]})
    chk.sample({"trace": "clustered", "enospc_at_write_call": 1, "of": info["clustered"]["write_calls"]})
    chk.transitions = chk.evaluations
    return chk.finish()


def replay(path):
    body = json.load(open(path))
    rp = body["replay"]
    if "rewrite" in rp:
        r = rewrite_work(tuple(rp["rewrite"]))
        print(r["problems"])
        return 1 if r["problems"] else 0
    if "run_level" in rp:
        r = run_level_work((rp["run_level"][0], tuple(rp["run_level"][1])))
        print(r["problems"])
        return 1 if r["problems"] else 0
    if "enospc_at" in rp:
        r = enospc_work(rp["kind"])
    else:
        r = prefix_work((rp["kind"], [rp["prefix"]], None))
    print(r["problems"])
    return 1 if r["problems"] else 0
