"""C12: result tables list every mutation once per sample, consistent with the tree."""
import itertools
import json
import math
import os
import shutil

import numpy as np

from mc import oracle, traces
from mc.harness import Check, pool_imap
from mc.checks.c10 import brute_max


def spec_states(spec, n):
    """spec: ('single', si) -> [state]; ('empty-clone', k) -> a multiset whose consensus has an empty clone."""
    states = oracle.all_states(n, outliers=True)
    if spec[0] == "single":
        return [states[spec[1]]]
    if spec[0] == "pair":
        # two trees recorded equally often with equal scores: every clade they do not share has support exactly one half
        return [states[spec[1]], states[spec[2]]]
    if spec[0] == "revisit":
        # the same tree recorded twice, numbered differently, the later copy with the higher score
        asym = [s for s in states if len(s[0]) >= 2 and len({(len(b), p is None) for b, p in s[0]}) >= 2 or (len(s[0]) >= 3)]
        a = asym[(spec[1] * 5) % len(asym)]
        return [a, a]
    fs = frozenset

    def st(pairs, outl=()):
        return (fs((fs(b), fs(p) if p is not None else None) for b, p in pairs), fs(outl))

    if n == 2:
        x = st([((0,), None), ((1,), (0,))])
        y = st([((1,), None), ((0,), (1,))])
        z = st([((0,), None), ((1,), None)])
        return [x, y, z]
    variants = [
        [st([((0,), None), ((1,), (0,)), ((2,), None)]), st([((1,), None), ((0,), (1,)), ((2,), None)]), st([((0,), None), ((1,), None), ((2,), None)])],
        [st([((2,), None), ((0,), (2,)), ((1,), (0,))]), st([((2,), None), ((1,), (2,)), ((0,), (1,))]), st([((2,), None), ((0,), (2,)), ((1,), (2,))])],
        [st([((0,), None), ((1,), (0,))], outl=(2,)), st([((1,), None), ((0,), (1,))], outl=(2,)), st([((0,), None), ((1,), None), ((2,), None)])],
    ]
    return variants[spec[1] % len(variants)]


def check_output(table, newick, data, samples, cluster_rows, expect_state, label, optimum=True):
    probs = []
    name_to_idx = {str(d.name): d.idx for d in data}
    cluster_of = {m: c for m, c in cluster_rows} if cluster_rows is not None else None
    want_muts = sorted(cluster_of) if cluster_of is not None else sorted(name_to_idx)
    for col in ("mutation_id", "clone_id", "sample_id", "ccf", "clonal_prev"):
        if col not in table.columns:
            return ["%s: column %s missing" % (label, col)], None
    for s in samples:
        got = sorted(str(m) for m in table[table["sample_id"] == s]["mutation_id"])
        if got != want_muts:
            probs.append("%s: sample %s lists mutations %r, input has %r" % (label, s, got[:6], want_muts[:6]))
    extra = set(map(str, table["sample_id"])) - set(samples)
    if extra:
        probs.append("%s: unknown samples %r" % (label, sorted(extra)))
    if probs:
        return probs, None  # the rows are not the input mutations: nothing further can be decoded
    dec, dp = traces.decode(table, newick, name_to_idx, cluster_of)
    probs += ["%s: %s" % (label, p) for p in dp]
    if probs:
        return probs, dec
    if cluster_of is not None:
        by_cluster = {}
        for _, row in table.iterrows():
            by_cluster.setdefault(cluster_of[str(row["mutation_id"])], set()).add(str(row["clone_id"]))
        for c, cl in by_cluster.items():
            if len(cl) != 1:
                probs.append("%s: mutations of cluster %r are spread over clones %r" % (label, c, sorted(cl)))
    # ccf / prevalence per clone and sample
    per = {}
    for _, row in table.iterrows():
        key = (str(row["clone_id"]), row["sample_id"])
        per.setdefault(key, set()).add((round(float(row["ccf"]), 12), round(float(row["clonal_prev"]), 12)))
    for (cid, s), vals in per.items():
        if len(vals) != 1:
            probs.append("%s: clone %s sample %s has several (ccf, prevalence) values %r" % (label, cid, s, sorted(vals)))
            continue
        ccf, pv = list(vals)[0]
        if cid == "-1":
            if ccf != -1 or pv != -1:
                probs.append("%s: outlier row carries ccf/prevalence %r" % (label, (ccf, pv)))
        elif not (-1e-12 <= ccf <= 1 + 1e-12 and -1e-12 <= pv <= 1 + 1e-12):
            probs.append("%s: clone %s ccf/prevalence %r outside [0,1]" % (label, cid, (ccf, pv)))
    if probs:
        return probs, dec
    # feasibility + prevalence arithmetic on the Newick tree
    kids = {}
    for c, p in dec["parent"].items():
        kids.setdefault(p, []).append(c)
    G = data[0].value.shape[1]
    for si, s in enumerate(samples):
        ccf = {c: list(per[(c, s)])[0][0] for c in dec["blocks"] if (c, s) in per}
        for c in dec["blocks"]:
            if c not in ccf:
                continue  # an empty clone has no row to check
            ks = [k for k in kids.get(c, [])]
            if all(k in ccf for k in ks):
                tot = sum(ccf[k] for k in ks)
                if tot > ccf[c] + 1e-9:
                    probs.append("%s: clone %s ccf %g below the sum of its children %g (sample %s)" % (label, c, ccf[c], tot, s))
                pv = list(per[(c, s)])[0][1]
                if abs(pv - (ccf[c] - tot)) > 1e-9:
                    probs.append("%s: clone %s prevalence %g != ccf - children = %g" % (label, c, pv, ccf[c] - tot))
        tops = kids.get(None, [])
        if all(k in ccf for k in tops) and sum(ccf[k] for k in tops) > 1 + 1e-9:
            probs.append("%s: top-level clones sum to %g > 1 (sample %s)" % (label, sum(ccf[k] for k in tops), s))
        stt = traces.decoded_state(dec)
        if optimum and stt is not None and len(stt[0]) > 0 and not probs:
            best, nodes, lp = brute_max(stt, data, si)
            name_of = {dec["blocks"][c]: c for c in dec["blocks"]}
            val = 0.0
            ok = True
            for i, b in enumerate(nodes):
                k = ccf[name_of[b]] * (G - 1)
                if abs(k - round(k)) > 1e-9:
                    probs.append("%s: ccf %g not on the grid" % (label, ccf[name_of[b]]))
                    ok = False
                    break
                val += lp[i][int(round(k))]
            if ok and not val >= best - 1e-9:
                probs.append("%s: table CCFs score %.10g, maximum is %.10g (sample %s)" % (label, val, best, s))
    if expect_state is not None and not probs:
        stt = traces.decoded_state(dec)
        if stt != expect_state:
            probs.append("%s: table + Newick describe %r, the trace holds %r" % (label, oracle.fmt_state(stt) if stt else "tree with empty clones", oracle.fmt_state(expect_state)))
    return probs, dec


def case(item):
    n, spec, clustered, dims = item[:4]
    layout = item[4] if len(item) > 4 else None  # (number of chains, order in which the chains completed)
    from phyclone.process_trace import write_map_results, write_consensus_results, write_topology_report

    res = {"item": item, "problems": [], "outputs": 0}
    sts = spec_states(spec, n)
    samples = ["S%d" % i for i in range(dims)]
    if clustered:
        phantom = (sum(x for x in spec[1:] if isinstance(x, int)) + dims + (layout[0] if layout else 0)) % 2 == 0
        data, crows = traces.clustered_setup(n, (1, 2, 1), dims=dims, grid=4, outlier_prob=0.2, phantom=phantom)
    else:
        data, crows = traces.named_data(n, dims=dims, grid=4, outlier_prob=0.2), None
    d = traces.scratch("c12_")
    try:
        trees = [oracle.build(s, data, reverse_siblings=(spec[0] == "revisit" and k == 1)) for k, s in enumerate(sts)]
        for t in trees:
            t.relabel_nodes()
        if spec[0] == "pair":
            chains = {0: [(trees[0], -1.0), (trees[1], -1.0)]}
        elif spec[0] == "revisit":
            chains = {0: [(trees[0], -3.0), (trees[1], -1.0)]}
        else:
            chains = {0: [(t, -1.0 - 0.5 * k) for k, t in enumerate(trees)]}
        if layout is not None:
            # the same entries in every chain (the expected outputs stay what they are), chains stored in completion order
            chains = {c: list(chains[0]) for c in range(layout[0])}
            results = traces.make_results(data, samples, chains, insertion_order=list(layout[1]), thin=(5 if dims == 1 else 1))
        else:
            # half of the traces are thinned ones (recorded iteration numbers run ahead of the positions in the trace)
            results = traces.make_results(data, samples, chains, thin=(5 if (dims + len(sts)) % 2 else 1))
        path = traces.write_trace(d, results, crows)
        single = sts[0] if (len(sts) == 1 or spec[0] == "revisit") else None
        jobs = []
        for mode in ("joint-likelihood", "frequency"):
            jobs.append(("map/" + mode, lambda tb, tr, mode=mode: write_map_results(path, tb, tr, map_type=mode), None if spec[0] == "pair" else (sts[0] if mode == "joint-likelihood" or single else None)))
        for wt in ("counts", "joint-likelihood"):
            jobs.append(("consensus/" + wt, lambda tb, tr, wt=wt: write_consensus_results(path, tb, tr, consensus_threshold=0.5, weight_type=wt), single))
        for label, fn, expect in jobs:
            tb = os.path.join(d, "table.tsv")
            tr = os.path.join(d, "tree.nwk")
            for p in (tb, tr):
                if os.path.exists(p):
                    os.remove(p)
            try:
                traces.quiet(fn, tb, tr)
            except Exception as e:
                res["problems"].append("%s: command failed with %s: %s" % (label, type(e).__name__, str(e)[:120]))
                continue
            res["outputs"] += 1
            probs, _ = check_output(traces.read_table(tb), open(tr).read().strip(), data, samples, crows, expect, label)
            res["problems"] += probs[:2]
        # topology report + archive
        rep = os.path.join(d, "topo.tsv")
        arch = os.path.join(d, "topo.tar.gz")
        try:
            traces.quiet(write_topology_report, path, rep, topologies_archive=arch)
            res["outputs"] += 1
            for tid, (tab, nwk) in traces.read_archive(arch).items():
                res["outputs"] += 1
                probs, dec = check_output(tab, nwk, data, samples, crows, None, "topology-report/" + tid)
                res["problems"] += probs[:2]
                if not probs and traces.decoded_state(dec) not in sts:
                    res["problems"].append("topology-report/%s: archived table + tree is not a tree of the trace" % tid)
        except Exception as e:
            res["problems"].append("topology-report: command failed with %s: %s" % (type(e).__name__, str(e)[:120]))
    except Exception as e:
        res["problems"].append("harness: %s: %s" % (type(e).__name__, e))
    finally:
        shutil.rmtree(d, ignore_errors=True)
    return res


def cli_case(item):
    """End to end through the real command line: `phyclone run` (in-process pool), then `phyclone map`, `consensus`,
    `topology-report` on the trace it wrote; every table + tree decoded and judged like the synthetic traces."""
    from mc import clidrv

    n_mut, n_samp, clustered, chains, outlier, seed = item
    res = {"item": item, "problems": [], "outputs": 0}
    d = clidrv.scratch("c12cli_")
    try:
        f, cf = clidrv.write_input(d, n_mut, n_samp, clustered)
        out = os.path.join(d, "trace.pkl.gz")
        argv = ["run", "-i", f, "-o", out, "--num-iters", "6", "--burnin", "1", "--num-particles", "3", "--grid-size", "11", "--seed", str(seed), "--print-freq", "1000",
                "--num-chains", str(chains), "--outlier-prob", repr(outlier), "--subtree-update-prob", "0.3"]
        if cf:
            argv += ["--cluster-file", cf]
        code, exc, _ = clidrv.invoke(argv, completion_order=list(range(chains))[::-1])
        if exc is not None or code != 0:
            res["problems"].append("run: command failed with %s: %s" % (type(exc).__name__, str(exc)[:120]))
            return res
        results = clidrv.read_trace(out)
        data, samples = results[0]["data"], list(results[0]["samples"])
        crows = [("m%d" % m, 0 if m < 2 else m - 1) for m in range(n_mut)] if clustered else None
        tb, tr = os.path.join(d, "t.tsv"), os.path.join(d, "t.nwk")
        jobs = [("map/" + mt, ["map", "-i", out, "-o", tb, "-t", tr, "--map-type", mt]) for mt in ("joint-likelihood", "frequency")]
        jobs += [("consensus/%s/%s" % (wt, th), ["consensus", "-i", out, "-o", tb, "-t", tr, "-w", wt] + (["--consensus-threshold", th] if th else []))
                 for wt in ("counts", "joint-likelihood") for th in (None, "0.9")]
        for label, av in jobs:
            for p_ in (tb, tr):
                if os.path.exists(p_):
                    os.remove(p_)
            code, exc, _ = clidrv.invoke(av)
            if exc is not None or code != 0:
                res["problems"].append("%s: command failed with %s: %s" % (label, type(exc).__name__, str(exc)[:120]))
                continue
            res["outputs"] += 1
            probs, _ = check_output(traces.read_table(tb), open(tr).read().strip(), data, samples, crows, None, label)
            res["problems"] += probs[:2]
        rep, arch = os.path.join(d, "r.tsv"), os.path.join(d, "r.tar.gz")
        for extra in ([], ["--top-trees", "1"]):
            code, exc, _ = clidrv.invoke(["topology-report", "-i", out, "-o", rep, "-t", arch] + extra)
            if exc is not None or code != 0:
                res["problems"].append("topology-report: command failed with %s: %s" % (type(exc).__name__, str(exc)[:120]))
                continue
            for tid, (tab, nwk) in traces.read_archive(arch).items():
                res["outputs"] += 1
                probs, _ = check_output(tab, nwk, data, samples, crows, None, "topology-report/" + tid)
                res["problems"] += probs[:2]
    except Exception as e:
        res["problems"].append("harness: %s: %s" % (type(e).__name__, str(e)[:150]))
    finally:
        clidrv.cleanup(d)
    return res


def large_case(item):
    """Bigger inputs: 12 data points / clusters (ids >= 10), 3 samples, deep and wide trees, some outliers."""
    par, clustered, k = item
    from phyclone.process_trace import write_map_results, write_consensus_results, write_topology_report
    from mc.checks.c02 import forest_state

    K = len(par)
    sizes = [1 + (i % 2) for i in range(K)]
    state, n_in = forest_state(par, sizes)
    n = n_in + 2
    state = (state[0], frozenset([n_in, n_in + 1]) if k % 2 == 0 else frozenset())  # two outliers in half of the cases
    samples = ["S2", "S10", "S1"]
    if clustered:
        data, crows = traces.clustered_setup(n, (1, 2, 3), dims=3, grid=4, outlier_prob=0.2)
    else:
        data, crows = traces.named_data(n, dims=3, grid=4, outlier_prob=0.2), None
    if k % 2:
        state = (state[0], frozenset())
        # the two spare points join the first clone so that every data point is placed
        first = sorted(state[0], key=lambda bp: sorted(bp[0]))[0][0]
        nb = frozenset(first | {n_in, n_in + 1})
        state = (frozenset(((nb if b == first else b), (nb if p_ == first else p_)) for b, p_ in state[0]), frozenset())
    res = {"item": item, "problems": [], "outputs": 0}
    d = traces.scratch("c12L_")
    try:
        t = oracle.build(state, data, reverse_siblings=bool(k % 3 == 0))
        t.relabel_nodes()
        results = traces.make_results(data, samples, {0: [(t, -5.0)], 1: [(t, -4.0)]})
        path = traces.write_trace(d, results, crows)
        tb, tr = os.path.join(d, "t.tsv"), os.path.join(d, "t.nwk")
        jobs = [("map", lambda: write_map_results(path, tb, tr)), ("consensus", lambda: write_consensus_results(path, tb, tr, consensus_threshold=0.5, weight_type="counts"))]
        for label, fn in jobs:
            try:
                traces.quiet(fn)
            except Exception as e:
                res["problems"].append("%s: command failed with %s: %s" % (label, type(e).__name__, str(e)[:120]))
                continue
            res["outputs"] += 1
            probs, _ = check_output(traces.read_table(tb), open(tr).read().strip(), data, samples, crows, state, label, optimum=False)
            res["problems"] += probs[:2]
        rep, arch = os.path.join(d, "r.tsv"), os.path.join(d, "r.tar.gz")
        try:
            traces.quiet(write_topology_report, path, rep, topologies_archive=arch)
            for tid, (tab, nwk) in traces.read_archive(arch).items():
                res["outputs"] += 1
                probs, _ = check_output(tab, nwk, data, samples, crows, state, "topology-report/" + tid, optimum=False)
                res["problems"] += probs[:2]
        except Exception as e:
            res["problems"].append("topology-report: command failed with %s: %s" % (type(e).__name__, str(e)[:120]))
    except Exception as e:
        res["problems"].append("harness: %s: %s" % (type(e).__name__, e))
    finally:
        shutil.rmtree(d, ignore_errors=True)
    return res


def main(tier, seed):
    chk = Check("C12", tier, seed)
    chk.rule = ("every tree over n<=3 data points incl. every outlier subset (all-outlier, single-clone ...) and multisets whose consensus has empty clones, x "
                "{unclustered, clustered with integer ids and sizes (1,2,1), half of them with a further listed cluster that has no data point} x samples {1,2} x {one chain, 2 or 3 chains stored in a completion order that does not start with chain 0}; each through map (both modes), consensus (both weightings), "
                "topology-report + archive; outputs decoded (table + Newick) and compared with the input mutation list, the trace's tree, feasibility and the "
                "brute-force CCF optimum; end-to-end cases through the real command line (phyclone run -> map / consensus / topology-report on 1-4 mutations, clustered or not, 1-2 chains); non-trivial = tree with >= 2 clones or an outlier")
    chk.assumptions = ["Newick node labels are compared as strings with the table's clone_id", "an empty clone (consensus trees) has no table row"]
    items = []
    for n in (1, 2, 3):
        ns = len(oracle.all_states(n, outliers=True))
        for si in range(ns):
            for cl in (False, True):
                for dims in (1, 2):
                    if tier == "quick" and n == 3 and (si + cl + dims) % 2:
                        continue
                    items.append((n, ("single", si), cl, dims))
        if n == 3:
            for k in range(8):
                for cl in (False, True):
                    items.append((n, ("revisit", k), cl, 1 + k % 2))
        if n >= 2:
            for k in range(1 if n == 2 else 3):
                for cl in (False, True):
                    for dims in (1, 2):
                        items.append((n, ("empty-clone", k), cl, dims))
    # even splits: every unordered pair of distinct trees over 3 data points (quick: all pairs of outlier-free trees, every 4th other pair)
    st3 = oracle.all_states(3, outliers=True)
    pk = 0
    for i in range(len(st3)):
        for j in range(i + 1, len(st3)):
            pk += 1
            if tier == "quick" and (st3[i][1] or st3[j][1]) and pk % 4:
                continue
            for cl in ((False, True) if tier == "thorough" else (bool(pk % 2),)):
                items.append((3, ("pair", i, j), cl, 1))
    # several chains, stored in every order in which they can complete (run() fills the result dictionary in completion order)
    layouts = [(2, (1, 0)), (3, (1, 2, 0)), (3, (2, 1, 0))]
    items += [it + (layouts[k % 3],) for k, it in enumerate(list(items)) if it[3] == 1 or k % 4 == 0]
    from mc.checks.c02 import large_forests

    litems = [(par, cl, k) for k, par in enumerate(p_ for p_ in large_forests() if len(p_) == 8) for cl in (False, True)]
    for r in pool_imap(large_case, litems, chunksize=1):
        chk.states.add(("large",) + tuple(r["item"]))
        chk.nontrivial.add(("large",) + tuple(r["item"]))
        chk.transitions += r["outputs"]
        chk.traces_validated += r["outputs"]
        for pr in r["problems"][:3]:
            chk.violation({"sub": "table-large", "command": pr.split(":")[0].split("/")[0], "clustered": r["item"][1], "what": pr.split(":")[1].strip()[:40] if ":" in pr else pr[:40]},
                          {"forest_parent_vector": list(r["item"][0]), "clustered": r["item"][1], "problem": pr}, {"large": [list(r["item"][0]), r["item"][1], r["item"][2]]})
    citems = [(n_mut, n_samp, cl, chains, op, 3 + k) for k, (n_mut, n_samp, cl) in enumerate(((1, 1, False), (2, 2, False), (3, 1, True), (4, 2, True), (4, 1, False)))
              for chains in (1, 2) for op in (0.0, 0.3)] + ([(5, 3, True, 3, 0.3, s_) for s_ in range(20, 30)] if tier == "thorough" else [])
    for r in pool_imap(cli_case, citems, chunksize=1):
        chk.states.add(("cli",) + tuple(r["item"]))
        chk.nontrivial.add(("cli",) + tuple(r["item"]))
        chk.transitions += r["outputs"]
        chk.traces_validated += r["outputs"]
        for pr in r["problems"][:3]:
            chk.violation({"sub": "table-cli", "command": pr.split(":")[0].split("/")[0], "clustered": r["item"][2], "what": pr.split(":")[1].strip()[:40] if ":" in pr else pr[:40]},
                          {"mutations,samples,clustered,chains,outlier_prob,seed": list(r["item"]), "problem": pr}, {"cli": list(r["item"])})
    for r in pool_imap(case, items, chunksize=2):
        n, spec, cl, dims = r["item"][:4]
        layout = r["item"][4] if len(r["item"]) > 4 else None
        chk.states.add((n, spec, layout))
        chk.transitions += r["outputs"]
        chk.traces_validated += r["outputs"]
        sts = spec_states(spec, n)
        if len(sts) > 1 or len(sts[0][0]) >= 2 or sts[0][1]:
            chk.nontrivial.add((n, spec, cl, dims, layout))
        for pr in r["problems"][:3]:
            chk.violation({"sub": "table", "command": pr.split(":")[0].split("/")[0], "clustered": cl, "chains": layout[0] if layout else 1, "what": pr.split(":")[1].strip()[:40] if ":" in pr else pr[:40]},
                          {"n": n, "trace": [oracle.fmt_state(s) for s in sts], "clustered": cl, "samples": dims, "chains_and_completion_order": layout, "problem": pr}, {"item": [n, list(spec), cl, dims, layout]})
        if len(chk.samples) < 3 and n == 3 and len(sts) == 1 and len(sts[0][0]) == 2:
            chk.sample({"tree": oracle.fmt_state(sts[0]), "clustered": cl, "samples": dims, "outputs_decoded": r["outputs"]})
    return chk.finish()


def replay(path):
    body = json.load(open(path))
    if "cli" in body["replay"]:
        r = cli_case(tuple(body["replay"]["cli"]))
        print(r["problems"])
        return 1 if r["problems"] else 0
    if "large" in body["replay"]:
        it = body["replay"]["large"]
        r = large_case((tuple(it[0]), it[1], it[2]))
        print(r["problems"])
        return 1 if r["problems"] else 0
    it = body["replay"]["item"]
    r = case((it[0], tuple(it[1]), it[2], it[3]) + (((it[4][0], tuple(it[4][1])),) if len(it) > 4 and it[4] else ()))
    print(r["problems"])
    return 1 if r["problems"] else 0
