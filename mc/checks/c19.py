"""C19: a run on valid input completes and records only finite, complete trees.

The real chain driver under the enumerating generator and a virtual clock over the full
cross-product of CLI-accepted option values (boundary values included), explored within a
deviation bound under several default policies.
"""
import itertools
import json
import math

import numpy as np

from mc import chain, oracle, stationarity as S
from mc.enumrng import explore, ScriptedRNG
from mc.harness import Check, pool_imap
from mc.invariants import wellformed

POLICIES = ("first", "last", "likely", "unlikely")


def make_run(cfg):
    from phyclone.tree import Tree

    start = None
    if cfg.get("start") is not None:
        start = oracle.all_states(cfg["n"], outliers=True)[cfg["start"]]
        cfg = {k: v for k, v in cfg.items() if k != "start"}

    def run(rng):
        S.clear_caches()
        try:
            if start is not None:
                out, data = chain.run_main_from(cfg, rng, start)
            else:
                out, data = chain.run_chain(cfg, rng)
        except Exception as e:
            import traceback

            tb = traceback.extract_tb(e.__traceback__)[-1]
            return ["run raised %s: %s @ %s:%d" % (type(e).__name__, str(e)[:100], tb.filename.split("/")[-1], tb.lineno)], 0
        probs = []
        idxs = {d.idx for d in data}
        if not out["trace"]:
            probs.append("empty trace")
        for k, e in enumerate(out["trace"]):
            v = e["log_p_one"]
            if not (isinstance(v, (float, np.floating)) and math.isfinite(v)):
                probs.append("entry %d records log_p_one = %r" % (k, v))
            if not (math.isfinite(e["alpha"]) and e["alpha"] > 0):
                probs.append("entry %d records alpha = %r" % (k, e["alpha"]))
            try:
                t = Tree.from_dict(e["tree"])
            except Exception as ex:
                probs.append("entry %d does not restore: %s" % (k, ex))
                continue
            wf = wellformed(t, idxs)
            if wf:
                probs.append("entry %d is not a well-formed tree over all data: %s" % (k, wf[0]))
        return probs, len(out["trace"])

    return run


def case(item):
    cfg, policy, bound, cap = item
    res = {"item": item, "n": 0, "problems": [], "entries": 0, "capped": False, "maxdev": 0}
    run = make_run(cfg)
    st = {}
    try:
        for p, (probs, ne), choices, ndev in explore(run, policy=policy, max_deviations=bound, max_execs=cap, stats=st):
            res["n"] += 1
            res["entries"] += ne
            res["maxdev"] = max(res["maxdev"], ndev)
            if probs and len(res["problems"]) < 2:
                res["problems"].append({"problems": probs[:3], "choices": choices, "policy": policy})
    except Exception as e:
        res["problems"].append({"problems": ["explorer: %s: %s" % (type(e).__name__, e)], "choices": [], "policy": policy})
    res["capped"] = bool(st.get("capped"))
    return res


CLI_OPTIONS = ("proposal", "num_particles", "resample_threshold", "outlier_prob", "subtree_update_prob", "thin", "burnin", "max_time",
               "concentration_update", "num_chains", "density", "grid_size", "num_iters")


def cli_items(tier):
    """One option at a time (pairs in thorough) over the values the repository's click declarations accept."""
    from mc import clidrv

    params = clidrv.run_params()
    alphabet = {}
    for name in CLI_OPTIONS:
        if name not in params:
            alphabet[name] = None  # reported by the case itself
            continue
        vals = clidrv.boundary_values(params[name])
        if name == "max_time":
            vals = [("0", 0.0), ("inf", float("inf")), ("1e-09", 1e-9)]
        alphabet[name] = vals
    singles = [((name, v[0]),) for name in CLI_OPTIONS for v in (alphabet[name] or [("?", None)])]
    items = []
    for ov in singles:
        for ds in ((1, 1, False), (3, 2, True)):
            items.append((ds, ov))
    if tier == "thorough":
        names = [n_ for n_ in CLI_OPTIONS if alphabet[n_]]
        for a, b in itertools.combinations(names, 2):
            for va in alphabet[a][:3]:
                for vb in alphabet[b][:3]:
                    items.append(((2, 1, False), ((a, va[0]), (b, vb[0]))))
    return items


def cli_case(item):
    """`phyclone run` through the real command line (click) in this process, pool replaced by an in-process executor."""
    import os
    from phyclone.tree import Tree
    from mc import clidrv

    (n_mut, n_samp, clustered), overrides = item
    res = {"item": item, "problems": [], "entries": 0}
    params = clidrv.run_params()
    d = clidrv.scratch("c19cli_")
    try:
        f, cf = clidrv.write_input(d, n_mut, n_samp, clustered)
        out = os.path.join(d, "trace.pkl.gz")
        base = {"num_iters": "3", "burnin": "1", "num_particles": "2", "grid_size": "11", "seed": "5", "print_freq": "1000"}
        flags = []
        eff = {}
        for name, val in overrides:
            if name not in params:
                res["problems"].append("the command line no longer has an option for %s" % name)
                return res
            p_ = params[name]
            if p_.is_flag:
                pos, neg = clidrv.flag_strings(p_)
                flags.append(pos if val == "on" else neg)
                eff[name] = (val == "on")
            else:
                base[name] = val
        argv = ["run", "-i", f, "-o", out]
        if cf:
            argv += ["--cluster-file", cf]
        for name, val in base.items():
            argv += [clidrv.opt_string(params[name]), val]
        argv += flags
        S.clear_caches()
        nchains = max(1, int(base.get("num_chains", "1")))
        code, exc, stdout = clidrv.invoke(argv, completion_order=list(range(nchains))[::-1])
        label = " ".join("%s=%s" % ov for ov in overrides)
        if exc is not None or code != 0:
            import traceback

            where = ""
            if exc is not None and exc.__traceback__ is not None:
                tb = traceback.extract_tb(exc.__traceback__)[-1]
                where = " @ %s:%d" % (tb.filename.split("/")[-1], tb.lineno)
            res["problems"].append("phyclone run %s: exit code %r, %s: %s%s" % (label, code, type(exc).__name__ if exc is not None else "no exception", (str(exc) if exc is not None else stdout[-150:])[:150], where))
            return res
        results = clidrv.read_trace(out)
        if len(results) != nchains:
            res["problems"].append("phyclone run %s: trace holds %d chains, asked for %d" % (label, len(results), nchains))
        want_n = (n_mut - 1) if clustered else n_mut
        for c, r in results.items():
            idxs = {dp.idx for dp in r["data"]}
            if len(idxs) != want_n:
                res["problems"].append("phyclone run %s: %d data points loaded, input has %d" % (label, len(idxs), want_n))
            if not r["trace"]:
                res["problems"].append("phyclone run %s: chain %r has an empty trace" % (label, c))
            for k, e in enumerate(r["trace"]):
                res["entries"] += 1
                v = e["log_p_one"]
                if not (isinstance(v, (float, np.floating)) and math.isfinite(v)):
                    res["problems"].append("phyclone run %s: entry %d records log_p_one = %r" % (label, k, v))
                    break
                try:
                    t = Tree.from_dict(e["tree"])
                except Exception as ex:
                    res["problems"].append("phyclone run %s: entry %d does not restore: %s" % (label, k, ex))
                    break
                wf = wellformed(t, idxs)
                if wf:
                    res["problems"].append("phyclone run %s: entry %d is not a well-formed tree over all data: %s" % (label, k, wf[0]))
                    break
    except Exception as e:
        res["problems"].append("harness: %s: %s" % (type(e).__name__, str(e)[:150]))
    finally:
        clidrv.cleanup(d)
    return res


def grid_a():
    out = []
    for n in (1, 2, 3):
        for prop in ("bootstrap", "semi-adapted", "fully-adapted"):
            for N in (1, 2, 3):
                for thr in (0.0, 0.5, 1.0):
                    for op in (0.0, 1e-4, 0.5, 1.0):
                        for sp in (0.0, 0.5, 1.0):
                            out.append(dict(n=n, proposal=prop, N=N, threshold=thr, outlier_prob=op, subtree_prob=sp, iters=2, burnin=1))
    return out


def grid_b():
    out = []
    for thin in (1, 2):
        for burnin in (1, 2):
            for mt, step in ((float("inf"), 0.0), (0.0, 0.0)):
                for conc in (False, True):
                    for dims in (1, 2):
                        for ndp in (0, 1):
                            for nprg in (0, 1):
                                for prop in ("bootstrap", "semi-adapted", "fully-adapted"):
                                    out.append(dict(n=2, dims=dims, proposal=prop, N=2, thin=thin, burnin=burnin, max_time=mt, clock_step=step, conc_update=conc,
                                                    n_dp=ndp, n_prg=nprg, iters=3, outlier_prob=(0.1 if (thin + burnin + ndp) % 2 else 0.0),
                                                    subtree_prob=(0.5 if (dims + nprg) % 2 else 0.0)))
    return out


def grid_d():
    """Grid sizes around the size threshold at which the likelihood recursion switches algorithm (1000 points), on peaked
    data with three data points (nodes with two and three children occur)."""
    out = []
    for g in (999, 1000, 1001):
        for k, prop in enumerate(("bootstrap", "semi-adapted", "fully-adapted")):
            for kind in ("peaked", "needle"):
                out.append(dict(n=3, grid=g, data=kind, dims=(2 if kind == "peaked" else 1), proposal=prop, N=2, iters=2, burnin=1, conc_update=bool(k % 2),
                                outlier_prob=(0.1 if g == 1001 else 0.0), subtree_prob=(0.5 if kind == "needle" else 0.0)))
    return out


def grid_e():
    """More data points (4-6) with subtree updates always on, several sweeps: label clashes when a resampled subtree is
    grafted back need at least four clones."""
    out = []
    for n in (4, 5, 6):
        for k, prop in enumerate(("bootstrap", "semi-adapted", "fully-adapted")):
            if n == 6 and prop == "fully-adapted":
                continue
            out.append(dict(n=n, data=("seeded" if n > 4 else "peaked"), proposal=prop, N=(2 if n > 4 else 3), iters=(6 if n == 4 else 4), burnin=1, conc_update=bool(k % 2),
                            outlier_prob=(0.1 if (n + k) % 2 else 0.0), subtree_prob=1.0, threshold=0.5))
    return out


def main(tier, seed):
    chk = Check("C19", tier, seed)
    chk.rule = ("run_phyclone_chain under EnumRNG + virtual clock. Grid A (972 configs, full cross): data points {1,2,3} x proposal x particles {1,2,3} x resample threshold "
                "{0,.5,1} x outlier probability {0,1e-4,.5,1} x subtree-update probability {0,.5,1}. Grid C: the real main loop (_run_main_sampler, 2 iterations) started from EVERY tree over 3 data points x proposal x subtree-update probability {0,1}, outlier modelling on. Grid B (384 configs): thin x burn-in x time limit {0,inf} x concentration "
                "update x samples {1,2} x data-point/prune-regraft sample counts {0,1} x proposal. Grid E (8 configs): 4-6 data points, subtree updates always on, 4-6 sweeps, 4 policies + bound 1 capped. Grid D (18 configs): grid sizes {999,1000,1001} (algorithm switch of the recursion) x proposal x {peaked 2-sample, needle} data on 3 data points. Every config: deviation bound 0 under 4 default policies; bound 1 "
                "(quick: Grid A with <=2 data points + every 3rd other config, capped) / bound 2 for single-data-point configs (thorough). Command line: `phyclone run` invoked through click in-process "
                "(pool replaced by an in-process executor), one option at a time (pairs in thorough) over every boundary value its click declaration accepts, incl. clamped out-of-range values, on 1 and 3 (clustered, 2 samples) mutations; non-trivial = config whose exploration ran >= 2 executions")
    chk.assumptions = ["deviation-bounded: not every random outcome of a whole run is enumerated; the completed bound is reported", "iterations 2-3, burn-in 1-2: long-run behaviour is not covered",
                       "continuous draws (concentration update) over a 7-quantile alphabet"]
    chk.exhaustive = False
    A = grid_a()
    B = grid_b()
    items = []
    for cfg in A + B:
        for pol in POLICIES:
            items.append((cfg, pol, 0, None))
    cap = 400 if tier == "quick" else 3000
    for k, cfg in enumerate(A):
        if tier == "thorough" or cfg["n"] <= 2 or k % 3 == 0:
            items.append((cfg, "first", 1, cap))
            if tier == "thorough":
                items.append((cfg, "unlikely", 1, cap))
        if tier == "thorough" and cfg["n"] == 1:
            items.append((cfg, "likely", 2, cap))
    for k, cfg in enumerate(B):
        if tier == "thorough" or k % 4 == 0:
            items.append((cfg, "likely", 1, cap))
    # Grid C: the real main loop started from EVERY tree over 3 data points (any of them can come out of burn-in)
    C = []
    n_states = len(oracle.all_states(3, outliers=True))
    for si in range(n_states):
        for k, prop in enumerate(("bootstrap", "semi-adapted", "fully-adapted")):
            for sp in (0.0, 1.0):
                if tier == "quick" and (si + k) % 3 and sp == 0.0:
                    continue
                C.append(dict(n=3, proposal=prop, N=2, threshold=0.5, outlier_prob=0.3, subtree_prob=sp, iters=2, conc_update=bool((si + k) % 2), start=si))
    for cfg in C:
        items.append((cfg, "first", 0, None))
        items.append((cfg, "unlikely", 0, None))
        items.append((cfg, "likely", 1, cap))
    E = grid_e()
    for cfg in E:
        for pol in POLICIES:
            items.append((cfg, pol, 0, None))
        items.append((cfg, "likely", 1, 60 if tier == "quick" else 400))
    D = grid_d()
    for cfg in D:
        for pol in (POLICIES if tier == "thorough" else ("first", "unlikely")):
            items.append((cfg, pol, 0, None))
    items.sort(key=lambda it: -(it[2] * 10 + it[0].get("n", 2) + (5 if it[0].get("grid", 3) > 100 else 0)))
    nexec = 0
    capped = 0
    for r in pool_imap(case, items, chunksize=1):
        cfg, pol, bound, _ = r["item"]
        nexec += r["n"]
        chk.transitions += r["n"]
        chk.traces_validated += r["n"]
        chk.states.add(json.dumps(cfg, sort_keys=True))
        chk.bump("trace_entries_checked", r["entries"])
        if r["n"] >= 2:
            chk.nontrivial.add(json.dumps(cfg, sort_keys=True))
        if r["capped"]:
            capped += 1
        for pr in r["problems"]:
            what = pr["problems"][0]
            chk.violation({"sub": "run", "what": what.split("@")[0].split(":")[0][:40] + ":" + (what.split(":")[1][:30] if ":" in what else ""), "n": cfg.get("n"), "proposal": cfg.get("proposal")},
                          {"config": cfg, "problem": pr}, {"config": cfg, "choices": pr["choices"], "policy": pr["policy"]})
    # the widest seam: the same option values through the real command line (option alphabet read from the click declarations)
    ncli = 0
    for r in pool_imap(cli_case, cli_items(tier), chunksize=2):
        ncli += 1
        chk.transitions += 1
        chk.traces_validated += 1
        chk.states.add(json.dumps(["cli", r["item"]], sort_keys=True, default=str))
        chk.nontrivial.add(json.dumps(["cli", r["item"]], sort_keys=True, default=str))
        chk.bump("trace_entries_checked", r["entries"])
        for pr in r["problems"][:2]:
            chk.violation({"sub": "cli", "what": pr.split(":")[0][:60]}, {"data": list(r["item"][0]), "options": [list(o) for o in r["item"][1]], "problem": pr},
                          {"cli": [list(r["item"][0]), [list(o) for o in r["item"][1]]]})
    chk.note("command_line_runs", ncli)
    chk.note("configs", len(A) + len(B) + len(C) + len(D) + len(E))
    chk.note("explorations", len(items))
    chk.note("explorations_that_hit_the_execution_cap", capped)
    chk.caps.append("deviation bound 0 (4 policies) for all %d configs; bound 1 on the subset described in rule with an execution cap of %d per exploration (%d explorations hit it)" % (len(A) + len(B), cap, capped))
    chk.sample({"config": A[500], "policy": "first", "deviation_bound": 1})
    chk.sample({"config": B[77], "policy": "likely", "deviation_bound": 0})
    return chk.finish()


def replay(path):
    body = json.load(open(path))
    rp = body["replay"]
    if "cli" in rp:
        r = cli_case((tuple(rp["cli"][0]), tuple(tuple(o) for o in rp["cli"][1])))
        print(r["problems"])
        return 1 if r["problems"] else 0
    cfg = rp["config"]
    for k in ("max_time",):
        if cfg.get(k) in ("inf", "Infinity"):
            cfg[k] = float("inf")
    probs, ne = make_run(cfg)(ScriptedRNG(rp["choices"], policy=rp["policy"]))
    print("entries:", ne, "problems:", probs)
    return 1 if probs else 0
