"""C10: reported CCFs are feasible on the tree and jointly maximise the likelihood."""
import itertools
import json
import math

import numpy as np

from mc import oracle
from mc.harness import Check, pool_imap
from mc.checks.c02 import forest_state


def brute_max(state, data, dim):
    """max over all feasible index assignments (clone >= sum of children, top level <= G-1) of
    the summed per-clone log-likelihoods; returns (max value, set of maximisers)."""
    ch = oracle.children_map(state)
    dmap = {d.idx: d for d in data}
    G = data[0].value.shape[1]
    nodes = sorted([b for b, _ in state[0]], key=sorted)
    pos = {b: i for i, b in enumerate(nodes)}
    lp = [sum(dmap[i].value[dim] for i in b) for b in nodes]
    best = -math.inf
    for assign in itertools.product(range(G), repeat=len(nodes)):
        if any(sum(assign[pos[c]] for c in ch.get(b, [])) > assign[pos[b]] for b in nodes):
            continue
        if sum(assign[pos[c]] for c in ch.get(None, [])) > G - 1:
            continue
        v = sum(lp[i][a] for i, a in enumerate(assign))
        if v > best:
            best = v
    return best, nodes, lp


def dp_max(state, data, dim):
    """Independent max-plus recursion (plain Python): best total score with top-level clones summing to <= G-1."""
    ch = oracle.children_map(state)
    dmap = {d.idx: d for d in data}
    G = data[0].value.shape[1]
    NEG = -math.inf

    def maxconv(a, b):
        return [max(a[j] + b[k - j] for j in range(k + 1)) for k in range(G)]

    def f(b):
        lp = [sum(dmap[i].value[dim][k] for i in b) for k in range(G)]
        kids = ch.get(b, [])
        if not kids:
            return lp
        h = f(kids[0])
        for c in kids[1:]:
            h = maxconv(h, f(c))
        g, best = [], NEG
        for k in range(G):
            best = max(best, h[k])
            g.append(best)
        return [lp[k] + g[k] for k in range(G)]

    tops = ch.get(None, [])
    h = f(tops[0])
    for c in tops[1:]:
        h = maxconv(h, f(c))
    return max(h)


def large_case(item):
    par, G, dims, kind, seed = item
    from phyclone.process_trace.map import get_map_node_ccfs_and_clonal_prev_dicts

    K = len(par)
    state, n = forest_state(par, [1 + (i % 2) for i in range(K)])
    data = oracle.make_data(n, dims=dims, grid=G, kind=("peaked" if kind == "sharp" else kind), seed=seed)
    if kind == "sharp":
        # sharply peaked clones: the first clones near CCF 1, later ones small, so that optimal indices and split points lie in the top of the grid
        import numpy as np

        x = np.linspace(0, 1, G)
        cs = [0.97, 0.88, 0.06, 0.03, 0.5, 0.01]
        for d_ in data:
            for dim in range(dims):
                c = cs[(d_.idx + 2 * dim) % len(cs)] if dim == 0 else cs[(d_.idx * 5 + 1) % len(cs)]
                d_.value[dim, :] = -4000.0 * (x - c) ** 2
    res = {"item": item, "problems": [], "n": 0}
    ch = oracle.children_map(state)
    t = oracle.build(state, data)
    t.relabel_nodes()
    try:
        ccfs, prevs = get_map_node_ccfs_and_clonal_prev_dicts(t)
    except Exception as e:
        res["problems"].append("raised %s: %s" % (type(e).__name__, e))
        return res
    nd = t.node_data
    name_of = {frozenset(d.idx for d in v): k for k, v in nd.items() if k != t.outlier_node_name}
    dmap = {d.idx: d for d in data}
    try:
        return _judge_large(res, par, G, dims, state, data, ch, ccfs, prevs, name_of, dmap)
    except Exception as e:
        res["problems"].append("the returned CCF / prevalence dictionaries cannot be read for this tree (%s: %s)" % (type(e).__name__, str(e)[:80]))
        return res


def _judge_large(res, par, G, dims, state, data, ch, ccfs, prevs, name_of, dmap):
    for dim in range(dims):
        res["n"] += 1
        idx = {}
        for b, nm in name_of.items():
            k = float(ccfs[nm][dim]) * (G - 1)
            if abs(k - round(k)) > 1e-9:
                res["problems"].append("CCF %r not on the grid" % (ccfs[nm][dim],))
                return res
            idx[b] = int(round(k))
        for b in name_of:
            s_ = sum(idx[c] for c in ch.get(b, []))
            if s_ > idx[b]:
                res["problems"].append("clone %r below the sum of its children (sample %d)" % (sorted(b), dim))
            if abs(float(prevs[name_of[b]][dim]) - (idx[b] - s_) / (G - 1)) > 1e-9:
                res["problems"].append("clone %r prevalence %r != ccf - children" % (sorted(b), float(prevs[name_of[b]][dim])))
        if sum(idx[c] for c in ch.get(None, [])) > G - 1:
            res["problems"].append("top-level clones sum above one (sample %d)" % dim)
        val = sum(sum(dmap[i].value[dim][idx[b]] for i in b) for b in name_of)
        best = dp_max(state, data, dim)
        if not val >= best - 1e-9:
            res["problems"].append("large forest %r grid %d sample %d: reported assignment scores %.10g, the maximum is %.10g" % (list(par), G, dim, val, best))
    return res


def case(item):
    try:
        return _case(item)
    except Exception as e:
        return {"item": item, "problems": ["the returned CCF / prevalence dictionaries cannot be read for this tree (%s: %s)" % (type(e).__name__, str(e)[:80])], "n": 1}


def _case(item):
    par, G, dims, kind, seed = item
    from phyclone.process_trace.map import get_map_node_ccfs_and_clonal_prev_dicts
    from phyclone.process_trace.process_trace import get_clone_table

    K = len(par)
    sizes = [1 + (i % 2) for i in range(K)]
    state, n = forest_state(par, sizes)
    data = oracle.make_data(n, dims=dims, grid=G, kind=kind, seed=seed)
    if kind == "ties":
        data = oracle.make_data(n, dims=dims, grid=G, kind="flat")
        for d in data[::2]:
            d.value[:, ::2] -= 1.0  # forced ties between distinct maximisers
    res = {"item": item, "problems": [], "n": 0}
    ch = oracle.children_map(state)
    for variant in ("plain", "reversed", "relabelled"):
        t = oracle.build(state, data, reverse_siblings=(variant == "reversed"))
        if variant == "relabelled":
            t.relabel_nodes()
        try:
            ccfs, prevs = get_map_node_ccfs_and_clonal_prev_dicts(t)
        except Exception as e:
            res["problems"].append("%s: raised %s: %s" % (variant, type(e).__name__, e))
            continue
        nd = t.node_data
        name_of = {frozenset(d.idx for d in v): k for k, v in nd.items() if k != t.outlier_node_name}
        if set(ccfs) != set(name_of.values()) or set(prevs) != set(name_of.values()):
            res["problems"].append("%s: CCF keys %r != clones %r" % (variant, sorted(ccfs), sorted(name_of.values())))
            continue
        for dim in range(dims):
            res["n"] += 1
            best, nodes, lp = brute_max(state, data, dim)
            idx = {}
            ok = True
            for b in nodes:
                c = float(ccfs[name_of[b]][dim])
                k = c * (G - 1)
                if abs(k - round(k)) > 1e-9 or not (0 <= round(k) <= G - 1):
                    res["problems"].append("%s: clone %r CCF %r is not on the grid" % (variant, sorted(b), c))
                    ok = False
                    break
                idx[b] = int(round(k))
            if not ok:
                continue
            for b in nodes:
                s = sum(idx[c] for c in ch.get(b, []))
                if s > idx[b]:
                    res["problems"].append("%s: clone %r fraction %d/%d below the sum of its children %d/%d (sample %d)" % (variant, sorted(b), idx[b], G - 1, s, G - 1, dim))
                    ok = False
                pv = float(prevs[name_of[b]][dim])
                want = (idx[b] - s) / (G - 1)
                if abs(pv - want) > 1e-9 or pv < -1e-12:
                    res["problems"].append("%s: clone %r prevalence %r, expected %r" % (variant, sorted(b), pv, want))
                    ok = False
            if sum(idx[c] for c in ch.get(None, [])) > G - 1:
                res["problems"].append("%s: top-level clones sum above one (sample %d)" % (variant, dim))
                ok = False
            if not ok:
                continue
            val = sum(lp[i][idx[b]] for i, b in enumerate(nodes))
            if not val >= best - 1e-9:
                res["problems"].append("%s: sample %d: reported assignment scores %.12g, the maximum is %.12g" % (variant, dim, val, best))
        if variant == "plain" and K <= 3:
            # the table columns carry the same numbers
            try:
                samples = ["S%d" % i for i in range(dims)]
                tab = get_clone_table(data, samples, t)
                for _, row in tab.iterrows():
                    cid = row["clone_id"]
                    si = samples.index(row["sample_id"])
                    if abs(float(row["ccf"]) - float(ccfs[cid][si])) > 1e-12 or abs(float(row["clonal_prev"]) - float(prevs[cid][si])) > 1e-12:
                        res["problems"].append("table row %r disagrees with the CCF dictionaries" % (dict(row),))
                        break
            except Exception as e:
                res["problems"].append("table: raised %s: %s" % (type(e).__name__, e))
    return res


def items(tier, seed):
    out = []
    Ks = (1, 2, 3, 4) if tier == "quick" else (1, 2, 3, 4, 5, 6)
    kinds_all = ["generic", "flat", "peaked", "ties", "seeded", "extreme"]
    for K in Ks:
        for pi, par in enumerate(oracle.forests(K)):
            for G in (2, 3, 4, 5):
                for dims in (1, 2):
                    kinds = kinds_all
                    if K == 4:
                        kinds = [kinds_all[(pi + G + dims) % 6], "ties"] if (tier == "thorough" or G in (3, 4)) else []
                    if K == 5:
                        kinds = ([kinds_all[(pi + G) % 6], "ties"] if G in (2, 3, 4) else []) if tier == "thorough" else ([kinds_all[(pi + G) % 6]] if (G == 3 and dims == 1) else [])
                    if K == 6:
                        kinds = [kinds_all[(pi + G) % 6]] if (G in (2, 3) and dims == 1) else []
                    for kind in kinds:
                        out.append((par, G, dims, kind, seed))
    return out


def main(tier, seed):
    chk = Check("C10", tier, seed)
    chk.rule = ("every rooted labelled forest on K<=4 (5) nodes x grid {2..5} x samples {1,2} x data alphabet incl. forced ties, three sibling/label variants; "
                "oracle: brute-force maximum over all feasible index assignments; non-trivial = forest with >= 2 nodes")
    chk.assumptions = ["ties: any maximiser accepted", "score = sum over clones of the clone's summed data log-likelihood at its grid index (the constant grid prior drops out)"]
    from mc.checks.c02 import large_forests

    # the independent max-plus oracle is first validated against the brute force on small forests
    for par in list(oracle.forests(3))[:8]:
        st_, n_ = forest_state(par, [1, 2, 1])
        dd = oracle.make_data(n_, dims=1, grid=4, kind="generic", seed=seed)
        if abs(dp_max(st_, dd, 0) - brute_max(st_, dd, 0)[0]) > 1e-9:
            chk.violation({"sub": "oracle"}, {"problem": "harness: max-plus oracle disagrees with the brute force"}, {"oracle": list(par)})
    litems = [(par, G, dims, kind, seed) for par in large_forests() for G in (5, 11) for dims, kind in ((1, "generic"), (2, "peaked"), (1, "ties" if False else "flat"))]
    # grids beyond 255 points (index tables must hold every grid index) on small forests with peaked two-sample data
    for par in ((-1,), (-1, 0), (-1, 0, 1), (-1, 0, 0), (-1, -1, 0), (-1, 0, 1, 1)):
        for G in ((256, 257, 301) if tier == "quick" else (255, 256, 257, 301, 400, 1000)):
            litems.append((par, G, 2, "peaked", seed))
            litems.append((par, G, 2, "sharp", seed))
    for r in pool_imap(large_case, litems, chunksize=2):
        chk.states.add(("large",) + tuple(r["item"][:4]))
        chk.nontrivial.add(("large",) + tuple(r["item"][:4]))
        chk.transitions += r["n"]
        chk.traces_validated += r["n"]
        for pr in r["problems"][:2]:
            chk.violation({"sub": "map-ccf-large", "K": len(r["item"][0]), "what": pr.split(":")[0][:30]}, {"forest_parent_vector": list(r["item"][0]), "grid": r["item"][1], "problem": pr}, {"large": list(r["item"])})
    for r in pool_imap(case, items(tier, seed), chunksize=8):
        par, G, dims, kind, _ = r["item"]
        chk.states.add((par, G, dims, kind))
        chk.transitions += r["n"]
        chk.traces_validated += r["n"]
        if len(par) >= 2:
            chk.nontrivial.add((par, G, dims, kind))
        for pr in r["problems"][:2]:
            chk.violation({"sub": "map-ccf", "K": len(par), "kind": kind, "what": pr.split(":")[1].strip()[:25] if ":" in pr else pr[:25]},
                          {"forest_parent_vector": list(par), "grid": G, "samples": dims, "data": kind, "problem": pr}, {"item": list(r["item"])})
        if len(chk.samples) < 3 and len(par) == 3 and G == 4:
            chk.sample({"forest_parent_vector": list(par), "grid": G, "samples": dims, "data": kind, "assignments_checked": r["n"]})
    return chk.finish()


def replay(path):
    body = json.load(open(path))
    if "large" in body["replay"]:
        it = body["replay"]["large"]
        r = large_case((tuple(it[0]), it[1], it[2], it[3], it[4]))
        print(r["problems"])
        return 1 if r["problems"] else 0
    it = body["replay"]["item"]
    r = case((tuple(it[0]), it[1], it[2], it[3], it[4]))
    print(r["problems"])
    return 1 if r["problems"] else 0
