"""C09: data orders are drawn uniformly from those compatible with the tree.

Every execution of RootPermutationDistribution.sample under the enumerating generator gives the
exact distribution over orders; the oracle is a brute-force filter of all n! orders.
"""
import json
import math

from mc import oracle
from mc.enumrng import explore
from mc.harness import Check, pool_imap

_DATA = {}


def _data(n):
    if n not in _DATA:
        _DATA[n] = oracle.make_data(n, grid=3, outlier_prob=0.2)
    return _DATA[n]


def work(item):
    n, si, variant = item
    from phyclone.smc.utils import RootPermutationDistribution

    states = oracle.all_states(n, outliers=True) if n <= 4 else oracle.all_states(n, outliers=False)
    s = states[si]
    data = _data(n)

    def mk():
        t = oracle.build(s, data, reverse_siblings=(variant == "rev"))
        if variant == "relabel":
            t.relabel_nodes()
        return t

    dist = {}
    nexec = 0
    tot = 0.0
    err = None
    try:
        for p, res, _c, _d in explore(lambda rng: tuple(dp.idx for dp in RootPermutationDistribution.sample(mk(), rng))):
            dist[res] = dist.get(res, 0.0) + p
            nexec += 1
            tot += p
        log_pdf = float(RootPermutationDistribution.log_pdf(mk()))
    except Exception as e:
        err = "%s: %s" % (type(e).__name__, e)
        log_pdf = float("nan")
    ref = oracle.linear_extensions(s)
    return {"n": n, "si": si, "variant": variant, "dist": dist, "nexec": nexec, "mass": tot, "log_pdf": log_pdf, "ref": ref, "err": err}


def main(tier, seed):
    chk = Check("C09", tier, seed)
    chk.rule = ("every abstract tree over n <= 4 data points incl. every outlier subset (n = 5 without outliers in thorough), built in "
                "three sibling/label variants: ALL executions of RootPermutationDistribution.sample; non-trivial = tree with >= 2 compatible orders")
    chk.assumptions = ["orders compared as tuples of data indices; oracle = brute-force filter of all n! permutations"]
    items = []
    for n in (1, 2, 3, 4):
        ns = len(oracle.all_states(n, outliers=True))
        for si in range(ns):
            for v in ("plain", "rev", "relabel"):
                if n == 4 and v != "plain" and tier == "quick" and si % 4:
                    continue
                items.append((n, si, v))
    if tier == "thorough":
        ns = len(oracle.all_states(5, outliers=False))
        items += [(5, si, "plain") for si in range(ns)]
    outcomes = set()
    for r in pool_imap(work, items, chunksize=8):
        n, si = r["n"], r["si"]
        states = oracle.all_states(n, outliers=(n <= 4))
        s = states[si]
        chk.states.add((n, oracle.state_key(s)))
        chk.transitions += r["nexec"]
        chk.traces_validated += r["nexec"]
        key = {"n": n, "variant": r["variant"], "n_outliers": len(s[1])}
        what = {"tree": oracle.fmt_state(s), "variant": r["variant"]}
        rep = {"n": n, "state_index": si, "variant": r["variant"]}
        if r["err"]:
            chk.violation(dict(key, sub="exception"), dict(what, error=r["err"]), rep)
            continue
        ref = set(r["ref"])
        got = set(r["dist"])
        cnt = len(ref)
        outcomes.add((n, si, cnt))
        if cnt >= 2:
            chk.nontrivial.add((n, si))
        if abs(r["mass"] - 1) > 1e-9:
            chk.violation(dict(key, sub="mass"), dict(what, mass=r["mass"]), rep)
        elif got != ref:
            chk.violation(dict(key, sub="support"), dict(what, missing=sorted(ref - got)[:3], extra=sorted(got - ref)[:3], compatible=cnt, drawn=len(got)), rep)
        else:
            dev = max(abs(p - 1.0 / cnt) for p in r["dist"].values())
            chk.worst("max_deviation_from_uniform", dev)
            if dev > 1e-12:
                chk.violation(dict(key, sub="uniform"), dict(what, deviation=dev, compatible=cnt), rep)
        d = abs(r["log_pdf"] + math.log(cnt))
        if not (d <= 1e-9):
            chk.violation(dict(key, sub="log_pdf"), dict(what, reported_count=math.exp(-r["log_pdf"]), compatible=cnt), rep)
        chk.worst("max_log_pdf_error", d if d == d else 1e9)
        if cnt >= 6 and len(chk.samples) < 4:
            chk.sample({"tree": oracle.fmt_state(s), "compatible_orders": cnt, "executions": r["nexec"], "one_order": list(r["ref"][0]), "log_pdf": r["log_pdf"]})
    chk.note("distinct_outcomes", len(outcomes))
    return chk.finish()


def replay(path):
    body = json.load(open(path))
    rp = body["replay"]
    r = work((rp["n"], rp["state_index"], rp["variant"]))
    cnt = len(r["ref"])
    print("tree", oracle.fmt_state(oracle.all_states(rp["n"], outliers=(rp["n"] <= 4))[rp["state_index"]]))
    print("compatible orders (brute force):", cnt, " drawn:", len(r["dist"]), " reported count:", math.exp(-r["log_pdf"]), r["err"] or "")
    bad = r["err"] or set(r["dist"]) != set(r["ref"]) or abs(r["log_pdf"] + math.log(cnt)) > 1e-9 or max(abs(p - 1.0 / cnt) for p in r["dist"].values()) > 1e-12
    return 1 if bad else 0
