"""C09: data orders are drawn uniformly from those compatible with the tree.

Every execution of RootPermutationDistribution.sample under the enumerating generator gives the
exact distribution over orders; the oracle is a brute-force filter of all n! orders.
"""
import json
import math

from mc import oracle
from mc.enumrng import explore
from mc.harness import Check, pool_imap

_DATA = {}


def _data(n):
    if n not in _DATA:
        _DATA[n] = oracle.make_data(n, grid=3, outlier_prob=0.2)
    return _DATA[n]


def work(item):
    n, si, variant = item
    from phyclone.smc.utils import RootPermutationDistribution

    states = oracle.all_states(n, outliers=True) if n <= 4 else oracle.all_states(n, outliers=False)
    s = states[si]
    data = _data(n)

    def mk():
        t = oracle.build(s, data, reverse_siblings=(variant == "rev"))
        if variant == "relabel":
            t.relabel_nodes()
        return t

    dist = {}
    nexec = 0
    tot = 0.0
    err = None
    try:
        for p, res, _c, _d in explore(lambda rng: tuple(dp.idx for dp in RootPermutationDistribution.sample(mk(), rng))):
            dist[res] = dist.get(res, 0.0) + p
            nexec += 1
            tot += p
        log_pdf = float(RootPermutationDistribution.log_pdf(mk()))
    except Exception as e:
        err = "%s: %s" % (type(e).__name__, e)
        log_pdf = float("nan")
    ref = oracle.linear_extensions(s)
    return {"n": n, "si": si, "variant": variant, "dist": dist, "nexec": nexec, "mass": tot, "log_pdf": log_pdf, "ref": ref, "err": err}


def exact_count(state):
    """Number of compatible orders by exact integer arithmetic (for trees too large for the brute-force filter)."""
    ch = oracle.children_map(state)

    def rec(b):
        size, ways = len(b), math.factorial(len(b))
        tot = 0
        for c in ch.get(b, []):
            s_c, w_c = rec(c)
            ways *= w_c
            tot += s_c
            ways *= math.comb(tot, s_c)
        return size + tot, ways

    tot, ways = 0, 1
    for r in ch.get(None, []):
        s_r, w_r = rec(r)
        ways *= w_r
        tot += s_r
        ways *= math.comb(tot, s_r)
    k = len(state[1])
    return ways * math.comb(tot + k, k) * math.factorial(k)


def large_work(item):
    par, n_out, policy = item[:3]
    from phyclone.smc.utils import RootPermutationDistribution
    from mc.checks.c02 import forest_state
    from mc.enumrng import EnumRNG

    K = len(par)
    sizes = list(item[3]) if len(item) > 3 else [1 + (i % 3 == 0) for i in range(K)]
    state, n_in = forest_state(par, sizes)
    state = (state[0], frozenset(range(n_in, n_in + n_out)))
    data = oracle.make_data(n_in + n_out, grid=2, outlier_prob=0.2)
    res = {"item": item, "problems": []}
    try:
        t = oracle.build(state, data)
        cnt = exact_count(state)
        lp = float(RootPermutationDistribution.log_pdf(t))
        want = -sum(math.log(x) for x in [cnt]) if cnt < 1e300 else -(math.lgamma(1) + float(cnt.bit_length()) * math.log(2))
        want = -math.log(cnt) if cnt < 10 ** 300 else None
        if want is not None and not abs(lp - want) <= 1e-9 * (1 + abs(want)):
            res["problems"].append("large tree %r with %d outliers: log_pdf %.12g, minus log of the exact count is %.12g" % (list(par), n_out, lp, want))
        rng = EnumRNG(policy=policy)
        order = [dp.idx for dp in RootPermutationDistribution.sample(oracle.build(state, data), rng)]
        pos = {v: k for k, v in enumerate(order)}
        ch = oracle.children_map(state)
        if sorted(order) != list(range(n_in + n_out)):
            res["problems"].append("drawn order is not a permutation of the data")
        else:
            def desc(b):
                out = set()
                for c in ch.get(b, []):
                    out |= set(c) | desc(c)
                return out
            for b, _ in state[0]:
                dsc = desc(b)
                if dsc and max(pos[j] for j in dsc) > min(pos[i] for i in b):
                    res["problems"].append("drawn order places clone %r before one of its descendants" % sorted(b))
                    break
    except Exception as e:
        res["problems"].append("raised %s: %s" % (type(e).__name__, str(e)[:150]))
    return res


def make_invariant(data):
    """Edit-history part: in every state of the edit BFS (reads between edits keep derived values warm) the reported
    density is minus the log of the exact number of compatible orders and a drawn order is compatible."""
    from phyclone.smc.utils import RootPermutationDistribution
    from mc.enumrng import EnumRNG

    def inv(t_before, ev, t, depth):
        a = oracle.abstract(t)
        if not a[0] and not a[1]:
            return []
        cnt = exact_count(a)
        lp = float(RootPermutationDistribution.log_pdf(t))
        probs = []
        if not abs(lp + math.log(cnt)) <= 1e-9:
            probs.append("log_pdf reports %.6g compatible orders, the tree has %d" % (math.exp(-lp), cnt))
        order = [dp.idx for dp in RootPermutationDistribution.sample(t, EnumRNG(policy=("first" if depth % 2 else "last")))]
        pos = {v: k for k, v in enumerate(order)}
        present = sorted(i for b, _ in a[0] for i in b) + sorted(a[1])
        if sorted(order) != sorted(present):
            probs.append("drawn order %r is not a permutation of the tree's data %r" % (order, sorted(present)))
        else:
            ch = oracle.children_map(a)

            def desc(b):
                out = set()
                for c in ch.get(b, []):
                    out |= set(c) | desc(c)
                return out

            for b, _ in a[0]:
                dsc = desc(b)
                if dsc and max(pos[j] for j in dsc) > min(pos[i] for i in b):
                    probs.append("drawn order %r places clone %r before one of its descendants" % (order, sorted(b)))
                    break
        return probs

    return inv


def main(tier, seed):
    chk = Check("C09", tier, seed)
    chk.rule = ("every abstract tree over n <= 4 data points incl. every outlier subset (n = 5 without outliers in thorough), built in "
                "three sibling/label variants: ALL executions of RootPermutationDistribution.sample; every state of the edit-history BFS (n=3 to depth 6 (12), complete trees over 4 points to depth 4 (5); "
                "all public reads between edits): log_pdf = -log(exact count) and a drawn order is compatible; non-trivial = tree with >= 2 compatible orders")
    chk.assumptions = ["orders compared as tuples of data indices; oracle = brute-force filter of all n! permutations"]
    items = []
    for n in (1, 2, 3, 4):
        ns = len(oracle.all_states(n, outliers=True))
        for si in range(ns):
            for v in ("plain", "rev", "relabel"):
                if n == 4 and v != "plain" and tier == "quick" and si % 4:
                    continue
                items.append((n, si, v))
    if tier == "thorough":
        ns = len(oracle.all_states(5, outliers=False))
        items += [(5, si, "plain") for si in range(ns)]
    outcomes = set()
    for r in pool_imap(work, items, chunksize=8):
        n, si = r["n"], r["si"]
        states = oracle.all_states(n, outliers=(n <= 4))
        s = states[si]
        chk.states.add((n, oracle.state_key(s)))
        chk.transitions += r["nexec"]
        chk.traces_validated += r["nexec"]
        key = {"n": n, "variant": r["variant"], "n_outliers": len(s[1])}
        what = {"tree": oracle.fmt_state(s), "variant": r["variant"]}
        rep = {"n": n, "state_index": si, "variant": r["variant"]}
        if r["err"]:
            chk.violation(dict(key, sub="exception"), dict(what, error=r["err"]), rep)
            continue
        ref = set(r["ref"])
        got = set(r["dist"])
        cnt = len(ref)
        outcomes.add((n, si, cnt))
        if cnt >= 2:
            chk.nontrivial.add((n, si))
        if abs(r["mass"] - 1) > 1e-9:
            chk.violation(dict(key, sub="mass"), dict(what, mass=r["mass"]), rep)
        elif got != ref:
            chk.violation(dict(key, sub="support"), dict(what, missing=sorted(ref - got)[:3], extra=sorted(got - ref)[:3], compatible=cnt, drawn=len(got)), rep)
        else:
            dev = max(abs(p - 1.0 / cnt) for p in r["dist"].values())
            chk.worst("max_deviation_from_uniform", dev)
            if dev > 1e-12:
                chk.violation(dict(key, sub="uniform"), dict(what, deviation=dev, compatible=cnt), rep)
        d = abs(r["log_pdf"] + math.log(cnt))
        if not (d <= 1e-9):
            chk.violation(dict(key, sub="log_pdf"), dict(what, reported_count=math.exp(-r["log_pdf"]), compatible=cnt), rep)
        chk.worst("max_log_pdf_error", d if d == d else 1e9)
        if cnt >= 6 and len(chk.samples) < 4:
            chk.sample({"tree": oracle.fmt_state(s), "compatible_orders": cnt, "executions": r["nexec"], "one_order": list(r["ref"][0]), "log_pdf": r["log_pdf"]})
    chk.note("distinct_outcomes", len(outcomes))
    # the exact integer count is first validated against the brute-force filter on every small tree
    for n in (2, 3, 4):
        for s_ in oracle.all_states(n, outliers=True):
            if exact_count(s_) != len(oracle.linear_extensions(s_)):
                chk.violation({"sub": "oracle"}, {"problem": "harness: exact count disagrees with the brute force", "tree": oracle.fmt_state(s_)}, {"oracle": True})
                break
    # trees with a history: every state of the edit BFS (the samplers' edit grammar, every public read between edits)
    from mc.checks import c06

    for r in ([dict(n=3, dims=1, grid=3, kind="generic", depth=(6 if tier == "quick" else 12), cap=None, outlier=0.2),
               dict(n=4, dims=1, grid=3, kind="generic", depth=(4 if tier == "quick" else 5), cap=None, full_only=True, outlier=0.2)]):
        c06.run_one(chk, r, seed, pid="C09", make_inv=make_invariant)
    from mc.checks.c02 import large_forests

    shapes = large_forests() + [tuple([-1] + list(range(29))), tuple([-1] + [0] * 24)]  # chain of 30 clones, star of 25
    litems = [(par, n_out, pol) for par in shapes for n_out in (0, 3) for pol in ("first", "last")]
    # clones with many data points: sibling groups whose sizes and totals run through 20 ... 70 (tables and integer types have edges there)
    for par, sizes in (((-1, -1), (12, 10)), ((-1, -1), (21, 5)), ((-1, 0, 0), (1, 21, 5)), ((-1, 0, 0), (2, 16, 16)), ((-1, -1, -1), (31, 1, 1)), ((-1, -1), (40, 35)),
                       ((-1, 0, 1, 1), (2, 3, 24, 4)), ((-1, -1, 1), (20, 1, 20))):
        for n_out in (0, 2):
            litems.append((par, n_out, "first", sizes))
    for r in pool_imap(large_work, litems, chunksize=2):
        chk.transitions += 1
        chk.traces_validated += 1
        chk.states.add(("large",) + tuple(r["item"][:2]) + tuple(r["item"][3:]))
        chk.nontrivial.add(("large",) + tuple(r["item"][:2]) + tuple(r["item"][3:]))
        for pr in r["problems"][:2]:
            chk.violation({"sub": "large", "what": pr.split(":")[0][:40]}, {"problem": pr}, {"large": [list(r["item"][0]), r["item"][1], r["item"][2]] + ([list(r["item"][3])] if len(r["item"]) > 3 else [])})
    return chk.finish()


def replay(path):
    body = json.load(open(path))
    rp = body["replay"]
    if "search" in rp:
        from mc.checks import c06

        return c06.replay(path, make_inv=make_invariant)
    if "large" in rp:
        r = large_work((tuple(rp["large"][0]), rp["large"][1], rp["large"][2]) + ((tuple(rp["large"][3]),) if len(rp["large"]) > 3 else ()))
        print(r["problems"])
        return 1 if r["problems"] else 0
    r = work((rp["n"], rp["state_index"], rp["variant"]))
    cnt = len(r["ref"])
    print("tree", oracle.fmt_state(oracle.all_states(rp["n"], outliers=(rp["n"] <= 4))[rp["state_index"]]))
    print("compatible orders (brute force):", cnt, " drawn:", len(r["dist"]), " reported count:", math.exp(-r["log_pdf"]), r["err"] or "")
    bad = r["err"] or set(r["dist"]) != set(r["ref"]) or abs(r["log_pdf"] + math.log(cnt)) > 1e-9 or max(abs(p - 1.0 / cnt) for p in r["dist"].values()) > 1e-12
    return 1 if bad else 0
