"""C01: one particle-Gibbs update of the whole tree leaves the posterior invariant.

Full enumeration (EnumRNG) of every execution of the real sampler from every start state gives
the exact transition matrix; global balance is decided at 1e-10.
"""
import json
import os
import subprocess
import sys

from mc import oracle, stationarity as S
from mc.harness import Check, pool_imap, VERIF

TOL = 1e-10
KERNELS = ["bootstrap", "semi-adapted", "fully-adapted"]
WIRINGS = ["library", "run"]


def configs(tier, seed):
    out = []

    def add(**kw):
        kw.setdefault("move", "pg")
        kw.setdefault("grid", 4)
        out.append(kw)

    # n = 1 : full cross
    for k in KERNELS:
        for w in WIRINGS:
            for op in (0.0, 0.2):
                for N in (2, 3):
                    for thr in (0.0, 0.5, 1.0):
                        add(n=1, kernel=k, wiring=w, outlier_prior=op, N=N, threshold=thr, alpha=1.0)
    # n = 2 : full cross at N=2, reduced at N=3
    for k in KERNELS:
        for w in WIRINGS:
            for op, het in ((0.0, False), (0.2, False), (0.2, True)):
                for thr in (0.0, 0.5, 1.0):
                    for alpha in (0.4, 1.0, 2.5):
                        add(n=2, kernel=k, wiring=w, outlier_prior=op, het=het, N=2, threshold=thr, alpha=alpha)
                add(n=2, kernel=k, wiring=w, outlier_prior=op, het=het, N=3, threshold=0.5, alpha=1.0)
    # data alphabet at n = 2
    for k in KERNELS:
        for kind, dims in (("flat", 1), ("peaked", 1), ("seeded", 1), ("generic", 2), ("dup", 1)):
            add(n=2, kernel=k, wiring="library", outlier_prior=0.2, N=2, threshold=0.5, alpha=1.3, data=kind, dims=dims, seed=seed)
        add(n=3, kernel=k, wiring="run", outlier_prior=0.0, N=2, threshold=0.5, alpha=1.3, data="dup")
    # n = 3, N = 2 : every kernel x wiring x outlier setting
    for k in KERNELS:
        for w in WIRINGS:
            add(n=3, kernel=k, wiring=w, outlier_prior=0.0, N=2, threshold=0.5, alpha=1.0)
            add(n=3, kernel=k, wiring=w, outlier_prior=0.2, N=2, threshold=0.5, alpha=1.0, grid=3)
    # the same kernel object re-used after alpha was assigned in place (memos warm from another alpha)
    for k in ("semi-adapted", "fully-adapted", "bootstrap"):
        add(n=2, kernel=k, wiring="library", outlier_prior=0.2, N=2, threshold=0.5, alpha=0.5, warm_other_alpha=2.9)
        add(n=3, kernel=k, wiring="library", outlier_prior=0.0, N=2, threshold=0.5, alpha=0.5, warm_other_alpha=2.9, grid=3)
    # the run loop's sampler set after its burn-in passes (one kernel object serves the burn-in, tree and subtree samplers)
    for k in KERNELS:
        add(n=2, kernel=k, wiring="run", outlier_prior=0.2, N=2, threshold=0.5, alpha=1.0, after_burnin=True)
        add(n=3, kernel=k, wiring="run", outlier_prior=0.0, N=2, threshold=0.5, alpha=1.3, after_burnin=True, grid=3)
    # n = 4 once in the quick tier: the smallest size at which a clone can have two children one of
    # which has descendants (the shape several order-counting defects need)
    add(n=4, kernel="fully-adapted", wiring="library", outlier_prior=0.0, N=2, threshold=0.5, alpha=1.0, grid=3)
    if tier == "thorough":
        for k in KERNELS:
            for w in WIRINGS:
                for thr in (0.0, 1.0):
                    for alpha in (0.4, 2.5):
                        add(n=3, kernel=k, wiring=w, outlier_prior=0.0, N=2, threshold=thr, alpha=alpha)
                add(n=3, kernel=k, wiring=w, outlier_prior=0.0, N=3, threshold=0.5, alpha=1.0, grid=3)
                add(n=3, kernel=k, wiring=w, outlier_prior=0.2, het=True, N=2, threshold=1.0, alpha=2.5, grid=3)
                add(n=2, kernel=k, wiring=w, outlier_prior=0.2, N=4, threshold=0.5, alpha=1.0)
            for kind, dims in (("flat", 1), ("peaked", 1), ("seeded", 1), ("generic", 2)):
                add(n=3, kernel=k, wiring="library", outlier_prior=0.0, N=2, threshold=0.5, alpha=1.3, data=kind, dims=dims, seed=seed)
            if k != "fully-adapted":
                add(n=4, kernel=k, wiring="library", outlier_prior=0.0, N=2, threshold=0.5, alpha=1.0, grid=3)
        add(n=4, kernel="semi-adapted", wiring="run", outlier_prior=0.0, N=2, threshold=1.0, alpha=2.5, grid=3)
    return out


def cost_hint(cfg):
    n = cfg["n"]
    base = {1: 1, 2: 10, 3: 400, 4: 8000}[n]
    if cfg.get("outlier_prior", 0) > 0:
        base *= 6
    mv = cfg.get("move", "pg")
    if mv in ("dp", "prg"):
        return base / 10.0
    if mv == "sweep":
        base *= 20
    return base * (cfg.get("N", 2) - 1) ** 3


def config_id(cfg):
    import hashlib

    return hashlib.sha1(json.dumps(cfg, sort_keys=True).encode()).hexdigest()[:10]


def family(cfg):
    return {
        "sub": "balance", "move": cfg["move"], "kernel": cfg.get("kernel"), "wiring": cfg.get("wiring"),
        "outliers": cfg.get("outlier_prior", 0.0) > 0, "n": cfg["n"],
    }


def run_configs(chk, cfgs, tol=TOL):
    """Shared by C01 and C04: enumerate every root of every config in parallel and judge."""
    roots = []
    for ci, cfg in enumerate(cfgs):
        for si in range(len(S.config_states(cfg))):
            roots.append((ci, si))
    roots.sort(key=lambda r: -cost_hint(cfgs[r[0]]))
    rows = {ci: [] for ci in range(len(cfgs))}
    global _CFGS
    _CFGS = cfgs
    for ci, res in pool_imap(_work, roots, chunksize=1):
        rows[ci].append(res)
    outcomes = set()
    for ci, cfg in enumerate(cfgs):
        rs = rows[ci]
        states = S.config_states(cfg)
        n_exec = sum(r["n_exec"] for r in rs)
        chk.transitions += n_exec
        chk.traces_validated += n_exec
        chk.evaluations += n_exec
        for s in states:
            chk.states.add((cfg["n"], cfg.get("outlier_prior", 0) > 0, oracle.state_key(s)))
        fam = family(cfg)
        for r in rs:
            if abs(r["mass"] - 1.0) > 1e-9 and not r["problems"]:
                chk.violation(dict(fam, sub="mass"), {"config": cfg, "start": oracle.fmt_state(states[r["si"]]), "mass": r["mass"]},
                              {"config": cfg, "start_index": r["si"]})
            for p in r["problems"]:
                chk.violation(dict(fam, sub="execution", kind=p["kind"], what=p["what"].split(" @")[0][:60]),
                              {"config": cfg, "start": oracle.fmt_state(states[r["si"]]), "problem": p},
                              {"config": cfg, "start_index": r["si"], "choices": p["choices"]})
            for y, p in r["row"].items():
                outcomes.add((ci, repr(y)))
            if len(r["row"]) > 1:
                chk.nontrivial.add((ci, r["si"]))
        resid, worst, foreign, pi, out = S.balance(cfg, rs)
        chk.worst("max_balance_residual_over_passing_configs" if resid <= tol else "max_balance_residual_over_failing_configs", resid)
        if foreign and not any(r["problems"] for r in rs):
            chk.violation(dict(fam, sub="foreign-state"), {"config": cfg, "foreign": foreign[:3]}, {"config": cfg})
        if resid > tol and not any(r["problems"] for r in rs):
            wit = None
            for r in rs:
                if states[worst] in r["witness"]:
                    wit = {"start": oracle.fmt_state(states[r["si"]]), "choices": r["witness"][states[worst]]}
                    break
            chk.violation(dict(fam, config_id=config_id(cfg), residual_1e7=int(round(resid * 1e7))), {"config": cfg, "residual": resid, "worst_state": oracle.fmt_state(states[worst]),
                                "pi": pi[worst], "piP": out[worst], "executions": n_exec},
                          {"config": cfg, "witness_path_into_worst_state": wit})
        if len(chk.samples) < 4 and cfg["n"] >= 2:
            r0 = max(rs, key=lambda r: len(r["row"]))
            chk.sample({"config": cfg, "start": oracle.fmt_state(states[r0["si"]]), "executions_from_start": r0["n_exec"],
                        "row": sorted(([oracle.fmt_state(y) if not isinstance(y[0], str) else list(y), p] for y, p in r0["row"].items()), key=lambda t: -t[1])[:4],
                        "balance_residual": resid})
    chk.note("configs", len(cfgs))
    chk.note("roots", len(roots))
    chk.note("distinct_outcomes", len(outcomes))
    return rows


_CFGS = None


def _work(root):
    ci, si = root
    return ci, S.compute_row((_CFGS[ci], si))


def determinism_probe(chk, cfg, si):
    """Replay one recorded non-trivial schedule twice in-process and once in a fresh process
    under a different PYTHONHASHSEED; observations must be identical."""
    from mc.enumrng import ScriptedRNG

    r = S.compute_row((cfg, si))
    if not r["witness"]:  # every execution failed: the configurations below report it
        return None, None, None
    wit = max(r["witness"].items(), key=lambda kv: len(kv[1]))
    y, choices = wit
    obs = []
    for _ in range(2):
        try:
            obs.append(replay_once(cfg, si, choices))
        except Exception as e:
            obs.append(["raised", type(e).__name__, str(e)[:100]])
    env = dict(os.environ, PYTHONHASHSEED="4242")
    cmd = [sys.executable, "-c", "import sys,json; sys.path.insert(0,%r); from mc.checks.c01 import replay_once; print('OBS', json.dumps(replay_once(json.loads(sys.argv[1]), int(sys.argv[2]), json.loads(sys.argv[3]))))" % VERIF,
           json.dumps(cfg), str(si), json.dumps(choices)]
    proc = subprocess.Popen(cmd, env=env, stdout=subprocess.PIPE, stderr=subprocess.PIPE, text=True)
    return obs, proc, {"config": cfg, "start_index": si, "choices": choices}


def finish_probe(chk, obs, proc, what):
    if proc is None:
        chk.note("determinism_probe", "skipped: the probe configuration produced no successful execution")
        return
    out, err = proc.communicate(timeout=600)
    line = [l for l in out.splitlines() if l.startswith("OBS ")]
    sub = json.loads(line[0][4:]) if line else ["<no output>", err[-300:]]
    same = obs[0] == obs[1] == sub
    chk.note("determinism_probe", {"schedule_length": len(what["choices"]), "identical_twice_in_process_and_in_fresh_process_other_hashseed": same})
    if not same:
        chk.violation({"sub": "harness-nondeterminism"}, {"in_process": obs, "fresh_process": sub, "what": what}, what)


def replay_once(cfg, si, choices):
    from mc.enumrng import ScriptedRNG

    data = S.config_data(cfg)
    states = S.config_states(cfg)
    td = S.make_tree_dist(cfg)
    rng = ScriptedRNG(choices)
    S.clear_caches()
    new = S.apply_move(cfg, rng, oracle.build(states[si], data), td)
    return [oracle.state_key(oracle.abstract(new)), repr(rng.prob), len(rng.trace)]


def replay(path):
    body = json.load(open(path))
    cfg = body["replay"]["config"]
    rows = [S.compute_row((cfg, si)) for si in range(len(S.config_states(cfg)))]
    resid, worst, foreign, pi, out = S.balance(cfg, rows)
    print("replay %s: config=%s" % (path, json.dumps(cfg, sort_keys=True)))
    for r in rows:
        for p in r["problems"]:
            print("  execution problem:", p)
    print("  max |piP - pi| = %.3e at state %s (pi=%.6g piP=%.6g)" % (resid, oracle.fmt_state(S.config_states(cfg)[worst]), pi[worst], out[worst]))
    return 1 if (resid > TOL or foreign or any(r["problems"] for r in rows)) else 0


def main(tier, seed):
    chk = Check("C01", tier, seed)
    chk.rule = ("every (config, start tree) root: ALL executions of ParticleGibbsTreeSampler.sample_tree under the enumerating "
                "generator (permutation, proposals, resampling, final selection); a root is non-trivial when its exact row has "
                ">= 2 distinct successor trees; states = distinct (data-set size, outlier mode, abstract tree)")
    chk.assumptions = [
        "pi is the repository's own log_p_one (tied to the model by C03)",
        "real-valued data from the finite alphabet generic/flat/peaked/seeded/generic-2d; n <= 3 (4 thorough), N <= 3 (4 thorough)",
        "balance decided at 1e-10 absolute",
    ]
    cfgs = configs(tier, seed)
    S.clear_caches()
    probe_cfg = dict(move="pg", n=2, kernel="semi-adapted", wiring="library", outlier_prior=0.2, N=2, threshold=0.5, alpha=1.0, grid=4)
    obs, proc, what = determinism_probe(chk, probe_cfg, 1)
    run_configs(chk, cfgs)
    finish_probe(chk, obs, proc, what)
    return chk.finish()
