"""C02: the tree likelihood equals the exact CCF-grid marginal under the sum constraint.

Every rooted labelled forest on K nodes x data alphabet x dims x grid sizes, built three ways;
oracle (i) the literal sum over all index assignments, (ii) a sound interval recursion [L,U] in
exact log-domain arithmetic that models the documented floor and a per-convolution error.
"""
import itertools
import json
import math

import numpy as np

from mc import oracle
from mc.harness import Check, pool_imap

TINY = math.log(4.9e-324)
LOG_FLOOR = math.log(1e-100)


def lse_arr(x):
    m = np.max(x)
    if m == -np.inf:
        return -np.inf
    return m + math.log(np.sum(np.exp(x - m)))


def conv_log_fast(a, b):
    """Exact O(G^2) truncated convolution in the log domain (vectorised)."""
    G = len(a)
    out = np.empty(G)
    br = b[::-1]
    for k in range(G):
        out[k] = lse_arr(a[: k + 1] + br[G - 1 - k:])
    return out


def cum_log(a):
    return np.logaddexp.accumulate(a)


def interval_conv(cl, cu, dl, du, eps, delta):
    """Enclosure of what an implementation may report for conv(child, prev) given that its inputs
    lie in [cl,cu] and [dl,du]: per-convolution relative error delta, absolute error eps*s, results
    <= 0 replaced by 1e-100*s (s = product of the input peaks)."""
    s_l = np.max(cl) + np.max(dl)
    s_u = np.max(cu) + np.max(du)
    lo = conv_log_fast(cl, dl)
    hi = conv_log_fast(cu, du)
    out_l = np.empty_like(lo)
    out_u = np.empty_like(hi)
    for k in range(len(lo)):
        # upper: D(1+delta) + eps*s, or the floor
        u = hi[k] + math.log1p(delta)
        if eps > 0:
            u = np.logaddexp(u, math.log(eps) + s_u)
        out_u[k] = max(u, LOG_FLOOR + s_u)
        # lower: D(1-delta) - eps*s when that is safely positive and in the normal range
        base = lo[k] + math.log1p(-delta)
        ok = base >= s_u + math.log(1e-290)
        if ok and eps > 0:
            if base > math.log(eps) + s_u + 1e-12:
                base = base + math.log1p(-math.exp(math.log(eps) + s_u - base))
            else:
                ok = False
        out_l[k] = base if ok else TINY + s_l
    return out_l, out_u


def interval_root(state, data, dim, eps, delta=1e-12):
    ch = oracle.children_map(state)
    dmap = {d.idx: d for d in data}
    G = data[0].value.shape[1]
    lp = -math.log(G)

    def R(b):
        v = np.full(G, lp)
        if b is not None:
            for i in b:
                v = v + dmap[i].value[dim]
        kids = ch.get(b, [])
        if not kids:
            return v, v
        rs = [R(c) for c in kids]
        if len(rs) == 1:
            dl, du = rs[0]
        else:
            # the memoised recursion is keyed order-insensitively: enclose every child order
            best_l = best_u = None
            if len(rs) <= 6:
                orders = list(itertools.permutations(range(len(rs))))
            else:
                # too many orders to enclose them all: a few representative ones; where they disagree (only possible
                # when a floor bites at an intermediate convolution) the enclosure is opened up completely below
                k = len(rs)
                orders = [tuple(range(k)), tuple(reversed(range(k))), tuple(list(range(1, k)) + [0]), tuple([k - 1] + list(range(k - 1))),
                          tuple(list(range(0, k, 2)) + list(range(1, k, 2)))]
            for od in orders:
                dl, du = interval_conv(rs[od[0]][0], rs[od[0]][1], rs[od[1]][0], rs[od[1]][1], eps, delta)
                for j in od[2:]:
                    dl, du = interval_conv(rs[j][0], rs[j][1], dl, du, eps, delta)
                best_l = dl if best_l is None else np.minimum(best_l, dl)
                best_u = du if best_u is None else np.maximum(best_u, du)
            dl, du = best_l, best_u
            if len(rs) > 6:
                loose = (du - dl) > 1e-10
                dl = np.where(loose, -np.inf, dl)
                du = np.where(loose, np.inf, du)
        return v + cum_log(dl), v + cum_log(du)

    return R(None)


def forest_state(par, sizes):
    blocks = []
    nxt = 0
    for sz in sizes:
        blocks.append(frozenset(range(nxt, nxt + sz)))
        nxt += sz
    st = frozenset((blocks[i], blocks[par[i]] if par[i] >= 0 else None) for i in range(len(par)))
    return (st, frozenset()), nxt


def build_variants(state, data):
    from phyclone.tree import Tree

    t1 = oracle.build(state, data)
    t2 = oracle.build(state, data, reverse_siblings=True)
    t2.update()
    t3 = Tree.from_dict(t1.to_dict())
    # SMC-style: one data point at a time, clones created empty-handed above their children
    t4 = Tree(data[0].grid_size)
    ch = oracle.children_map(state)
    dmap = {d.idx: d for d in data}

    def rec(b):
        kids = [rec(c) for c in ch.get(b, [])]
        pts = sorted(b)
        node = t4.create_root_node(children=kids, data=[dmap[pts[0]]])
        for i in pts[1:]:
            t4.add_data_point_to_node(dmap[i], node)
        return node

    for r in ch.get(None, []):
        rec(r)
    out = {"post-order": t1, "reversed+update": t2, "from_dict": t3, "point-by-point": t4}
    # a dictionary written before the prior was stored in it (older trace files): the restore falls back to the uniform grid prior
    old = {k: v for k, v in t1.to_dict().items() if k != "log_prior"}
    out["from_dict-of-an-older-trace"] = Tree.from_dict(old)
    # the original after a COPY of it was edited (Gibbs-move style) and the original recomputed: copies must not share buffers
    t5 = oracle.build(state, data)
    big = [b for b, _ in state[0] if len(b) > 1]
    if big:
        c = t5.copy()
        nd = c.node_data
        name_of = {frozenset(d.idx for d in v): k for k, v in nd.items() if k != c.outlier_node_name}
        b = sorted(big, key=sorted)[0]
        c.remove_data_point_from_node(dmap[max(b)], name_of[b])
        c.add_data_point_to_outliers(dmap[max(b)])
        t5.update()
        out["original-after-its-copy-was-edited"] = t5
        # a data point taken out of a clone and put back (the Gibbs data-point move that returns to where it was), no update()
        t6 = oracle.build(state, data)
        nd6 = t6.node_data
        name6 = {frozenset(d.idx for d in v): k for k, v in nd6.items() if k != t6.outlier_node_name}
        for b in sorted(big, key=sorted):
            t6.remove_data_point_from_node(dmap[max(b)], name6[b])
            t6.add_data_point_to_node(dmap[max(b)], name6[b])
        out["point-removed-and-put-back"] = t6
    return out


def case(item):
    par, G, dims, kind, seed = item
    K = len(par)
    sizes = [1 + (i % 2) for i in range(K)]
    state, n = forest_state(par, sizes)
    data = oracle.make_data(n, dims=dims, grid=G, kind=kind, seed=seed)
    fft = G >= 1000
    eps = 1e-11 if fft else 0.0
    res = {"item": item, "problems": [], "worst_tight": 0.0, "tight": 0, "entries": 0, "literal": False}
    try:
        trees = build_variants(state, data)
    except Exception as e:
        res["problems"].append("build raised %s: %s" % (type(e).__name__, e))
        return res
    for d in range(dims):
        L, U = interval_root(state, data, d, eps)
        E = oracle.recursion_root_vector(state, data, d) if not fft else None
        if G ** K <= 20000 and not fft:
            lit = oracle.exact_root_vector(state, data, d)
            res["literal"] = True
            if float(np.max(np.abs(lit - E))) > 1e-9:
                res["problems"].append("harness: reference recursion disagrees with the literal sum by %.3e" % float(np.max(np.abs(lit - E))))
                return res
        for name, t in trees.items():
            got = np.asarray(t.data_log_likelihood)[d]
            res["entries"] += len(got)
            if not np.all(np.isfinite(got)):
                res["problems"].append("%s: non-finite likelihood %r" % (name, got.tolist()[:6]))
                continue
            tol = 1e-9
            below = got < L - tol
            above = got > U + tol
            if np.any(below) or np.any(above):
                k = int(np.argmax(below | above))
                res["problems"].append("%s: entry %d of sample %d = %.12g outside the sound enclosure [%.12g, %.12g]%s" % (
                    name, k, d, got[k], L[k], U[k], "" if E is None else " (exact %.12g)" % E[k]))
                continue
            tight = (U - L) <= 1e-10
            res["tight"] += int(np.sum(tight))
            if E is not None and np.any(tight):
                w = float(np.max(np.abs(got[tight] - E[tight])))
                res["worst_tight"] = max(res["worst_tight"], w)
                if w > 1e-9:
                    k = int(np.argmax(np.where(tight, np.abs(got - E), 0)))
                    res["problems"].append("%s: entry %d of sample %d = %.12g, exact %.12g" % (name, k, d, got[k], E[k]))
    return res


def large_forests():
    """A few large shapes (chains, stars, caterpillars, several top-level clones) - behaviour that depends on size or depth."""
    shapes = []
    for K in (8, 12):
        shapes.append(tuple([-1] + list(range(K - 1))))                    # chain
        shapes.append(tuple([-1] + [0] * (K - 1)))                           # star under one clone
        shapes.append(tuple([-1] * K))                                       # K top-level clones
        shapes.append(tuple([-1] + [max(0, i - 2) for i in range(1, K)]))    # caterpillar
        shapes.append(tuple([-1, -1] + [i % 2 for i in range(K - 2)]))       # two bushy roots
    return shapes


def items(tier, seed):
    out = []
    for par in large_forests():
        for G in ((11,) if tier == "quick" else (11, 101)):
            for kind in ("generic", "peaked", "dup") if tier == "quick" else ("generic", "peaked", "dup", "extreme", "flat"):
                out.append((par, G, 2 if kind == "generic" else 1, kind, seed))
    Ks = (1, 2, 3, 4) if tier == "quick" else (1, 2, 3, 4, 5, 6)
    for K in Ks:
        for par in oracle.forests(K):
            for G in (2, 3, 4, 5):
                for dims in (1, 2):
                    kinds = ["generic", "flat", "peaked", "extreme", "seeded", "needle"]
                    if K >= 4 and tier == "quick":
                        kinds = [kinds[(sum(par) + G + dims) % 5], "extreme", "needle"] if G in (3, 5) else []
                    if K == 5 and tier == "quick":
                        kinds = [kinds[(sum(par) + G) % 5]] if (G == 3 and dims == 1) else []
                    if K == 6:
                        kinds = [kinds[(sum(par) + G) % 6]] if (G in (2, 3) and dims == 1) else []
                    for kind in kinds:
                        out.append((par, G, dims, kind, seed))
    # the switch from direct to FFT convolution
    Kf = (1, 2, 3) if tier == "quick" else (1, 2, 3, 4)
    for K in Kf:
        pars = list(oracle.forests(K))
        for pi, par in enumerate(pars):
            if K == 4 and pi % 5 and tier == "quick":
                continue
            for G in (999, 1000, 1001):
                kinds = ("generic", "peaked", "needle") if tier == "quick" else ("generic", "flat", "peaked", "extreme", "needle")
                for kind in kinds:
                    if tier == "quick" and K == 3 and kind == "peaked" and pi % 4:
                        continue
                    out.append((par, G, 1 if K == 3 else 2, kind, seed))
    return out


def main(tier, seed):
    chk = Check("C02", tier, seed)
    chk.rule = ("every rooted labelled forest on K<=4 (5) nodes, 1-2 data points per node, x grid {2,3,4,5} x samples {1,2} x data alphabet incl. "
                "dynamic range e^-300; plus K<=3 (4) at grid 999/1000/1001 (direct->FFT switch); each built 4 ways; non-trivial = forest with >= 2 nodes")
    chk.assumptions = ["oracle: literal sum where G^K<=4000 validates the O(G^2) log-domain recursion, which carries the interval enclosure",
                       "enclosure models: relative error 1e-12 per convolution, FFT absolute error 1e-11 of the peak product, results <=0 floored at 1e-100 of the peak product; every child order enclosed (order-insensitive memo keys)"]
    its = items(tier, seed)
    for r in pool_imap(case, its, chunksize=4):
        par, G, dims, kind, _ = r["item"]
        chk.states.add((par, G, dims, kind))
        chk.transitions += 5 * dims
        chk.traces_validated += 5 * dims
        chk.evaluations += r["entries"]
        chk.bump("entries_in_tight_region", r["tight"])
        chk.bump("cases_validated_by_literal_sum", 1 if r["literal"] else 0)
        chk.worst("worst_error_in_tight_region", r["worst_tight"])
        if len(par) >= 2:
            chk.nontrivial.add((par, G, dims, kind))
        for pr in r["problems"][:2]:
            chk.violation({"sub": "likelihood", "K": len(par), "fft": G >= 1000, "kind": kind, "what": pr.split(":")[0][:40]},
                          {"forest_parent_vector": list(par), "grid": G, "samples": dims, "data": kind, "problem": pr}, {"item": list(r["item"])})
        if len(chk.samples) < 3 and len(par) == 3 and G == 4:
            chk.sample({"forest_parent_vector": list(par), "grid": G, "samples": dims, "data": kind, "entries_compared": r["entries"], "tight_entries": r["tight"]})
    return chk.finish()


def replay(path):
    body = json.load(open(path))
    it = body["replay"]["item"]
    r = case((tuple(it[0]), it[1], it[2], it[3], it[4]))
    print(r["problems"])
    return 1 if r["problems"] else 0
