"""C06: incrementally maintained likelihoods equal a from-scratch rebuild, in every state
reachable by the samplers' edit grammar (explicit-state BFS over the real Tree)."""
import json

from mc import editbfs, oracle
from mc.harness import Check
from mc.invariants import wellformed

_TD = {}


def _td():
    if "td" not in _TD:
        from phyclone.tree import FSCRPDistribution, TreeJointDistribution

        _TD["td"] = TreeJointDistribution(FSCRPDistribution(1.3))
    return _TD["td"]


def make_invariant(data, independent=False):
    def inv(t_before, ev, t, depth):
        probs = wellformed(t, editbfs.expected_data(t_before, ev))
        if probs:
            return ["malformed: " + "; ".join(probs[:3])]
        return editbfs.fresh_equal_problems(t, data, _td(), 1e-9 * (1 + depth), independent=independent)

    return inv


def make_invariant_independent(data):
    return make_invariant(data, independent=True)


def runs(tier, seed):
    if tier == "quick":
        return [dict(n=3, dims=1, grid=4, kind="generic", depth=12, cap=None),
                dict(n=4, dims=1, grid=3, kind="generic", depth=5, cap=None),
                dict(n=4, dims=1, grid=3, kind="peaked", depth=6, cap=None, full_only=True),
                dict(n=3, dims=2, grid=3, kind="seeded", depth=4, cap=None, outlier=0.2),
                # duplicated mutations: byte-identical sibling vectors (memo keys must keep multiplicities apart)
                dict(n=3, dims=1, grid=3, kind="dup", depth=5, cap=None),
                dict(n=4, dims=1, grid=3, kind="dup", depth=5, cap=None, full_only=True),
                # the fresh build on emptied memo tables (it cannot inherit what the history left there), also beyond the
                # 1000-point switch of the recursion's algorithm
                dict(n=3, dims=1, grid=4, kind="generic", depth=5, cap=None, independent=True),
                # the trees as they are between a graft and the samplers' update() call
                dict(n=3, dims=1, grid=3, kind="generic", depth=6, cap=None, raw_grafts=True),
                dict(n=4, dims=1, grid=3, kind="generic", depth=5, cap=None, raw_grafts=True, full_only=True),
                dict(n=3, dims=2, grid=1000, kind="peaked", depth=4, cap=None, independent=True),
                dict(n=4, dims=1, grid=1001, kind="peaked", depth=4, cap=None, independent=True, full_only=True)]
    return [dict(n=3, dims=1, grid=4, kind="generic", depth=12, cap=None),
            dict(n=3, dims=2, grid=3, kind="seeded", depth=12, cap=None, outlier=0.2),
            dict(n=4, dims=2, grid=3, kind="peaked", depth=6, cap=400000),
            dict(n=4, dims=1, grid=4, kind="generic", depth=5, cap=None, outlier=0.2),
            dict(n=3, dims=1, grid=3, kind="dup", depth=12, cap=None),
            dict(n=4, dims=1, grid=3, kind="dup", depth=6, cap=None, full_only=True),
            dict(n=4, dims=1, grid=3, kind="generic", depth=7, cap=600000, full_only=True),
            dict(n=3, dims=1, grid=4, kind="generic", depth=8, cap=None, independent=True),
            dict(n=3, dims=1, grid=3, kind="generic", depth=12, cap=None, raw_grafts=True),
            dict(n=4, dims=1, grid=3, kind="generic", depth=6, cap=None, raw_grafts=True, full_only=True),
            dict(n=3, dims=2, grid=1000, kind="peaked", depth=6, cap=None, independent=True),
            dict(n=4, dims=1, grid=1001, kind="peaked", depth=5, cap=None, independent=True, full_only=True)]


def run_one(chk, r, seed, pid="C06", make_inv=make_invariant, grammar_kw=None):
    data = oracle.make_data(r["n"], dims=r["dims"], grid=r["grid"], kind=r["kind"], seed=seed, outlier_prob=r.get("outlier", 0.0))
    gk = dict(grammar_kw or {})
    if r.get("full_only"):
        gk["moves_on_full_only"] = True
    if r.get("raw_grafts"):
        gk["raw_grafts"] = True
    g = editbfs.Grammar(data, **gk)
    if r.get("independent") and make_inv is make_invariant:
        make_inv = make_invariant_independent
    res = editbfs.bfs(g, make_inv(data), r["depth"], max_states=r["cap"])
    chk.n_states_extra += res["states"]
    chk.transitions += res["transitions"]
    chk.traces_validated += res["transitions"]
    chk.n_nontrivial_extra += res["states"] - 1
    desc = dict(r, states=res["states"], transitions=res["transitions"], depth_completed=res["depth_completed"],
                closed=res["closed"], abstract_trees_reached=res["abstract_states"], new_states_per_level=[l["new_states"] for l in res["levels"]])
    chk.extra.setdefault("searches", []).append(desc)
    if not res["closed"]:
        chk.cap("n=%d dims=%d: state space not closed; every history up to depth %d covered%s" % (
            r["n"], r["dims"], res["depth_completed"], " (state cap %s hit: later levels partial)" % r["cap"] if res["capped"] else ""))
    for h in res["sample_histories"]:
        chk.sample({"n": r["n"], "history": [list(map(lambda x: list(x) if isinstance(x, tuple) else x, ev)) for ev in h]})
    for history, ev, probs in res["violations"]:
        chk.violation({"sub": "edit", "event": ev[0], "n": r["n"], "what": probs[0].split(":")[0][:50]},
                      {"search": r, "history": list(history), "event": list(ev), "problems": probs[:4]},
                      {"search": r, "seed": seed, "history": [list(e) for e in history], "event": list(ev)})
    return res


def isolation_work(item):
    """Several live trees, as the prune-regraft sampler holds them: one extracted subtree object grafted onto two copies of
    the remaining tree; then every in-place edit inside the grafted region of the first copy.  The second copy, the subtree
    object and the pruned tree must not change, and the second copy must still equal its fresh build."""
    n, si, seed = item[:3]
    mode = item[3] if len(item) > 3 else "fresh"  # "model": judge the other live trees by the closed-form density and tree identity (C03)
    from phyclone.tree import Tree

    data = oracle.make_data(n, dims=1, grid=3, kind="generic", seed=seed, outlier_prob=0.2)

    def judge(t):
        if mode == "fresh":
            return editbfs.fresh_equal_problems(t, data, td, 1e-9)
        a = oracle.abstract(t)
        if not a[0] and not a[1]:
            return []
        out = []
        for form, fn in (("marginal", td.log_p), ("one", td.log_p_one)):
            want = oracle.ref_log_joint(a, data, 1.3, form, data_term=oracle.exact_root_vector)
            got = float(fn(t))
            if not abs(got - want) <= 1e-8 * (1 + abs(want)):
                out.append("%s = %.12g, the model gives %.12g for the tree it holds" % ("log_p" if form == "marginal" else "log_p_one", got, want))
        f = oracle.build(a, data)
        if not (f == t and t == f and hash(f) == hash(t)):
            out.append("it no longer compares / hashes equal to a fresh build with the same clades and outliers")
        return out
    s = oracle.all_states(n - 1, outliers=True)[si]
    spare = data[n - 1]
    td = _td()
    res = {"item": item, "n": 0, "problems": []}

    def problem(what, ctx):
        if len(res["problems"]) < 3:
            res["problems"].append({"what": what, "ctx": ctx})

    def snapshot(trees):
        return [(editbfs.canon(t), tuple(sorted(d.idx for d in t.data))) for t in trees]

    def watch(names, trees, before, ctx):
        for nm, t, b in zip(names, trees, before):
            try:
                now = (editbfs.canon(t), tuple(sorted(d.idx for d in t.data)))
            except Exception as e:
                problem("%s can no longer be read after an in-place edit of another tree: %s" % (nm, type(e).__name__), ctx)
                continue
            if now != b:
                problem("%s changed when another tree was edited in place" % nm, ctx)
                continue
            wf = wellformed(t, set(b[1]))
            if wf:
                problem("%s malformed after an in-place edit of another tree: %s" % (nm, wf[0]), ctx)
                continue
            fp = judge(t)
            if fp:
                problem("%s after an in-place edit of another tree: %s" % (nm, fp[0]), ctx)

    try:
        base0 = oracle.build(s, data)
        names = list(base0.nodes)
        # several trees restored from ONE dictionary (particles hand their tree over in dictionary form, more than once)
        for via in ("dict", "holder"):
            if via == "dict":
                d = base0.to_dict()
                mk = lambda: Tree.from_dict(d)
            else:
                from phyclone.smc.swarm import TreeHolder

                holder = TreeHolder(base0, td, None)
                mk = lambda: holder.tree
            A, B = mk(), mk()
            ctx = {"tree": oracle.fmt_state(s), "restored_via": via}
            live_names = ["a second tree restored from the same dictionary", "the original tree"]
            live = [B, base0]
            before = snapshot(live)
            for g_ in list(A.nodes):
                A.add_data_point_to_node(spare, g_)
                res["n"] += 1
                watch(live_names, live, before, dict(ctx, edit="add a data point to clone %r of the first restored tree" % (g_,)))
                A.remove_data_point_from_node(spare, g_)
                if len(A._data[g_]) > 1:
                    dp = A._data[g_][0]
                    A.remove_data_point_from_node(dp, g_)
                    A.add_data_point_to_outliers(dp)
                    res["n"] += 1
                    watch(live_names, live, before, dict(ctx, edit="move a data point of clone %r of the first restored tree to the outliers" % (g_,)))
                    A.remove_data_point_from_outliers(dp)
                    A.add_data_point_to_node(dp, g_)
            A.add_data_point_to_outliers(spare)
            res["n"] += 1
            watch(live_names, live, before, dict(ctx, edit="add an outlier to the first restored tree"))
            C = mk()
            res["n"] += 1
            if oracle.abstract(C) != s:
                problem("a tree restored later from the same dictionary is not the tree that was stored", dict(ctx, edit="in-place edits of the first restored tree"))
            else:
                fp = judge(C)
                if fp:
                    problem("a tree restored later from the same dictionary: %s" % fp[0], ctx)
            if len(res["problems"]) >= 3:
                return res
        for v in names:
            probe = base0.copy()
            sub_probe = probe.get_subtree(v)
            probe.remove_subtree(sub_probe)
            parents = [None] + list(probe.nodes)
            sub_idx = {d.idx for d in sub_probe.data}
            for variant in ("extracted", "scratch"):
                for p1 in parents:
                    for p2 in parents:
                        pr = base0.copy()
                        sub = pr.get_subtree(v)
                        pr.remove_subtree(sub)
                        if variant == "scratch":
                            # a subtree built from nothing, as the subtree sampler's particles hand it over: its names clash with the host's
                            new = Tree(sub.grid_size)
                            prev = []
                            for dp in sorted(sub.data, key=lambda d: d.idx):
                                prev = [new.create_root_node(children=prev, data=[dp])]
                            sub = new
                        ctx = {"tree": oracle.fmt_state(s), "subtree_root": repr(v), "subtree": variant, "first_parent": repr(p1), "second_parent": repr(p2)}
                        before_sub = snapshot([sub])
                        A = pr.copy()
                        A.add_subtree(sub, parent=p1)
                        A.update()
                        watch(["the subtree object"], [sub], before_sub, dict(ctx, edit="graft onto the first copy"))
                        before_sub = snapshot([sub])
                        B = pr.copy()
                        B.add_subtree(sub, parent=p2)
                        B.update()
                        res["n"] += 2
                        watch(["the subtree object"], [sub], before_sub, dict(ctx, edit="graft onto the second copy"))
                        live_names = ["the second grafted copy", "the subtree object", "the pruned tree"]
                        live = [B, sub, pr]
                        before = snapshot(live)
                        grafted = [nm for nm in A.nodes if {d.idx for d in A._data[nm]} <= sub_idx and A._data[nm]]
                        for g_ in grafted:
                            A.add_data_point_to_node(spare, g_)
                            res["n"] += 1
                            watch(live_names, live, before, dict(ctx, edit="add a data point to grafted clone %r of the first copy" % (g_,)))
                            A.remove_data_point_from_node(spare, g_)
                            res["n"] += 1
                            watch(live_names, live, before, dict(ctx, edit="remove it again"))
                            if len(A._data[g_]) > 1:
                                dp = A._data[g_][0]
                                A.remove_data_point_from_node(dp, g_)
                                A.add_data_point_to_outliers(dp)
                                res["n"] += 1
                                watch(live_names, live, before, dict(ctx, edit="move a data point of grafted clone %r to the outliers" % (g_,)))
                                A.remove_data_point_from_outliers(dp)
                                A.add_data_point_to_node(dp, g_)
                        A.relabel_nodes()
                        res["n"] += 1
                        watch(live_names, live, before, dict(ctx, edit="relabel the first copy"))
                        fp = judge(A)
                        if fp:
                            problem("the edited copy itself: %s" % fp[0], ctx)
                        if len(res["problems"]) >= 3:
                            return res
    except Exception as e:
        problem("raised %s: %s" % (type(e).__name__, str(e)[:150]), {"tree": oracle.fmt_state(s)})
    return res


def isolation(chk, tier, seed):
    from mc.harness import pool_imap

    items = []
    for n in ((4,) if tier == "quick" else (4, 5)):
        ns = len(oracle.all_states(n - 1, outliers=True))
        items += [(n, si, seed) for si in range(ns)]
    if tier == "quick":
        ns = len(oracle.all_states(4, outliers=True))
        items += [(5, si, seed) for si in range(0, ns, 5)]
    tot = 0
    for r in pool_imap(isolation_work, items, chunksize=2):
        tot += r["n"]
        chk.transitions += r["n"]
        chk.traces_validated += r["n"]
        chk.n_states_extra += 1
        chk.n_nontrivial_extra += 1 if r["n"] else 0
        for pr in r["problems"][:2]:
            chk.violation({"sub": "isolation", "what": pr["what"].split(":")[0][:60], "n": r["item"][0]}, {"problem": pr["what"], "context": pr["ctx"]},
                          {"isolation": list(r["item"])})
    chk.note("isolation_edits_checked", tot)


def main(tier, seed):
    chk = Check("C06", tier, seed)
    chk.rule = ("BFS from the empty tree over the edit grammar (SMC placements, data-point moves incl. outliers, prune-regraft to every "
                "attachment point, subtree cycle with 4 replacement forests, relabel, copy, dict and pickle round-trips); states de-duplicated by a "
                "canonical form of all slots; non-trivial = every state but the empty tree; invariant in every state: per-clone log_p/log_r, root "
                "vector, log_p, log_p_one and the fused variant equal a fresh build; isolation part: every tree over <=3 (4) data points, every subtree, "
                "extracted or rebuilt from nothing, grafted onto two copies of the pruned tree at every pair of parents, then every in-place edit of the first copy's "
                "grafted clones: the second copy, the subtree object and the pruned tree stay unchanged and equal to their fresh builds")
    chk.assumptions = ["canonical form rounds arrays to 1e-9", "tolerance 1e-9*(1+depth)", "data from the alphabet; n<=4"]
    for r in runs(tier, seed):
        run_one(chk, r, seed)
    isolation(chk, tier, seed)
    return chk.finish()


def _tup(x):
    return tuple(_tup(y) for y in x) if isinstance(x, list) else x


def replay(path, make_inv=make_invariant):
    body = json.load(open(path))
    rp = body["replay"]
    if "isolation" in rp:
        r = isolation_work(tuple(rp["isolation"]))
        print(r["problems"])
        return 1 if r["problems"] else 0
    r = rp["search"]
    data = oracle.make_data(r["n"], dims=r["dims"], grid=r["grid"], kind=r["kind"], seed=rp.get("seed", 0), outlier_prob=r.get("outlier", 0.0))
    g = editbfs.Grammar(data, moves_on_full_only=bool(r.get("full_only")), raw_grafts=bool(r.get("raw_grafts")))
    hist = [_tup(e) for e in rp["history"]]
    t = g.rebuild(hist)
    ev = _tup(rp["event"])
    print("history:", hist, "\nevent:", ev)
    try:
        nt = g.apply(t, ev)
    except Exception as e:
        print("edit raised", type(e).__name__, e)
        return 1
    if r.get("independent") and make_inv is make_invariant:
        make_inv = make_invariant_independent
    probs = make_inv(data)(t, ev, nt, len(hist) + 1)
    print("problems:", probs)
    return 1 if probs else 0
