"""C06: incrementally maintained likelihoods equal a from-scratch rebuild, in every state
reachable by the samplers' edit grammar (explicit-state BFS over the real Tree)."""
import json

from mc import editbfs, oracle
from mc.harness import Check
from mc.invariants import wellformed

_TD = {}


def _td():
    if "td" not in _TD:
        from phyclone.tree import FSCRPDistribution, TreeJointDistribution

        _TD["td"] = TreeJointDistribution(FSCRPDistribution(1.3))
    return _TD["td"]


def make_invariant(data):
    def inv(t_before, ev, t, depth):
        probs = wellformed(t, editbfs.expected_data(t_before, ev))
        if probs:
            return ["malformed: " + "; ".join(probs[:3])]
        return editbfs.fresh_equal_problems(t, data, _td(), 1e-9 * (1 + depth))

    return inv


def runs(tier, seed):
    if tier == "quick":
        return [dict(n=3, dims=1, grid=4, kind="generic", depth=12, cap=None),
                dict(n=4, dims=1, grid=3, kind="generic", depth=5, cap=None),
                dict(n=4, dims=1, grid=3, kind="peaked", depth=6, cap=None, full_only=True),
                dict(n=3, dims=2, grid=3, kind="seeded", depth=4, cap=None, outlier=0.2),
                # duplicated mutations: byte-identical sibling vectors (memo keys must keep multiplicities apart)
                dict(n=3, dims=1, grid=3, kind="dup", depth=5, cap=None),
                dict(n=4, dims=1, grid=3, kind="dup", depth=5, cap=None, full_only=True)]
    return [dict(n=3, dims=1, grid=4, kind="generic", depth=12, cap=None),
            dict(n=3, dims=2, grid=3, kind="seeded", depth=12, cap=None, outlier=0.2),
            dict(n=4, dims=2, grid=3, kind="peaked", depth=6, cap=400000),
            dict(n=4, dims=1, grid=4, kind="generic", depth=5, cap=None, outlier=0.2),
            dict(n=3, dims=1, grid=3, kind="dup", depth=12, cap=None),
            dict(n=4, dims=1, grid=3, kind="dup", depth=6, cap=None, full_only=True),
            dict(n=4, dims=1, grid=3, kind="generic", depth=7, cap=600000, full_only=True)]


def run_one(chk, r, seed, pid="C06", make_inv=make_invariant, grammar_kw=None):
    data = oracle.make_data(r["n"], dims=r["dims"], grid=r["grid"], kind=r["kind"], seed=seed, outlier_prob=r.get("outlier", 0.0))
    gk = dict(grammar_kw or {})
    if r.get("full_only"):
        gk["moves_on_full_only"] = True
    g = editbfs.Grammar(data, **gk)
    res = editbfs.bfs(g, make_inv(data), r["depth"], max_states=r["cap"])
    chk.n_states_extra += res["states"]
    chk.transitions += res["transitions"]
    chk.traces_validated += res["transitions"]
    chk.n_nontrivial_extra += res["states"] - 1
    desc = dict(r, states=res["states"], transitions=res["transitions"], depth_completed=res["depth_completed"],
                closed=res["closed"], abstract_trees_reached=res["abstract_states"], new_states_per_level=[l["new_states"] for l in res["levels"]])
    chk.extra.setdefault("searches", []).append(desc)
    if not res["closed"]:
        chk.cap("n=%d dims=%d: state space not closed; every history up to depth %d covered%s" % (
            r["n"], r["dims"], res["depth_completed"], " (state cap %s hit: later levels partial)" % r["cap"] if res["capped"] else ""))
    for h in res["sample_histories"]:
        chk.sample({"n": r["n"], "history": [list(map(lambda x: list(x) if isinstance(x, tuple) else x, ev)) for ev in h]})
    for history, ev, probs in res["violations"]:
        chk.violation({"sub": "edit", "event": ev[0], "n": r["n"], "what": probs[0].split(":")[0][:50]},
                      {"search": r, "history": list(history), "event": list(ev), "problems": probs[:4]},
                      {"search": r, "seed": seed, "history": [list(e) for e in history], "event": list(ev)})
    return res


def main(tier, seed):
    chk = Check("C06", tier, seed)
    chk.rule = ("BFS from the empty tree over the edit grammar (SMC placements, data-point moves incl. outliers, prune-regraft to every "
                "attachment point, subtree cycle with 4 replacement forests, relabel, copy, dict and pickle round-trips); states de-duplicated by a "
                "canonical form of all slots; non-trivial = every state but the empty tree; invariant in every state: per-clone log_p/log_r, root "
                "vector, log_p, log_p_one and the fused variant equal a fresh build")
    chk.assumptions = ["canonical form rounds arrays to 1e-9", "tolerance 1e-9*(1+depth)", "data from the alphabet; n<=4"]
    for r in runs(tier, seed):
        run_one(chk, r, seed)
    return chk.finish()


def _tup(x):
    return tuple(_tup(y) for y in x) if isinstance(x, list) else x


def replay(path, make_inv=make_invariant):
    body = json.load(open(path))
    rp = body["replay"]
    r = rp["search"]
    data = oracle.make_data(r["n"], dims=r["dims"], grid=r["grid"], kind=r["kind"], seed=rp.get("seed", 0), outlier_prob=r.get("outlier", 0.0))
    g = editbfs.Grammar(data, moves_on_full_only=bool(r.get("full_only")))
    hist = [_tup(e) for e in rp["history"]]
    t = g.rebuild(hist)
    ev = _tup(rp["event"])
    print("history:", hist, "\nevent:", ev)
    try:
        nt = g.apply(t, ev)
    except Exception as e:
        print("edit raised", type(e).__name__, e)
        return 1
    probs = make_inv(data)(t, ev, nt, len(hist) + 1)
    print("problems:", probs)
    return 1 if probs else 0
