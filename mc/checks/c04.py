"""C04: data-point, prune-regraft and subtree moves (and the sweep) preserve the posterior.

Same engine as C01: the exact transition matrix of each real move.  For the subtree move a
*component* oracle is evaluated too: conditional on the block that was picked, the move must be
reversible w.r.t. pi on the states sharing that block (conditional particle Gibbs is
reversible), which is judged independently of the verdict on global balance.
"""
import json
import math
import traceback

from mc import oracle, stationarity as S
from mc.enumrng import explore
from mc.harness import Check, pool_imap
from mc.checks import c01

TOL = 1e-10
KERNELS = c01.KERNELS


def configs(tier, seed):
    out = []

    def add(**kw):
        kw.setdefault("grid", 4)
        out.append(kw)

    # data-point move
    for n in (2, 3):
        for op, het in ((0.0, False), (0.2, False), (0.2, True)):
            for alpha in (0.4, 1.0, 2.5):
                add(move="dp", n=n, outlier_prior=op, het=het, alpha=alpha, wiring="library")
            add(move="dp", n=n, outlier_prior=op, het=het, alpha=1.0, wiring="run", kernel="semi-adapted")
    for kind, dims in (("flat", 1), ("peaked", 1), ("seeded", 1), ("generic", 2), ("dup", 1)):
        add(move="dp", n=3, outlier_prior=0.2, alpha=1.3, data=kind, dims=dims, seed=seed)
        add(move="prg", n=3, outlier_prior=0.0, alpha=1.3, data=kind, dims=dims, seed=seed)
    # prune-regraft
    for n in (2, 3):
        for op in (0.0, 0.2):
            for alpha in (0.4, 1.0, 2.5):
                add(move="prg", n=n, outlier_prior=op, alpha=alpha)
    add(move="prg", n=4, outlier_prior=0.0, alpha=1.0, grid=3)
    add(move="dp", n=4, outlier_prior=0.0, alpha=1.0, grid=3)
    # subtree particle Gibbs
    for k in KERNELS:
        for op in (0.0, 0.2):
            add(move="subtree", n=2, kernel=k, wiring="library", outlier_prior=op, N=2, threshold=0.5, alpha=1.0)
            add(move="subtree", n=2, kernel=k, wiring="run", outlier_prior=op, N=3, threshold=0.5, alpha=2.5)
        add(move="subtree", n=3, kernel=k, wiring="library", outlier_prior=0.0, N=2, threshold=0.5, alpha=1.0)
    add(move="subtree", n=3, kernel="fully-adapted", wiring="run", outlier_prior=0.2, N=2, threshold=0.5, alpha=1.0, grid=3)
    # the sweep of the run loop
    for k in KERNELS:
        for sp in (0.0, 0.5, 1.0):
            add(move="sweep", n=2, kernel=k, wiring="run", outlier_prior=0.0, N=2, threshold=0.5, alpha=1.0, subtree_prob=sp)
        add(move="sweep", n=2, kernel=k, wiring="run", outlier_prior=0.2, N=2, threshold=0.5, alpha=1.0, subtree_prob=0.5, grid=3)
    # the data-point move on trees that came out of a grafting move (clone positions in the graph no longer follow creation order)
    add(move="dp", n=3, outlier_prior=0.0, alpha=1.0, grid=3, regrafted_start=True)
    add(move="dp", n=3, outlier_prior=0.2, alpha=1.7, grid=3, regrafted_start=True)
    add(move="dp", n=4, outlier_prior=0.0, alpha=1.0, grid=3, regrafted_start=True)
    # repeated data-point / prune-regraft moves inside one sweep (--num-samples-data-point / --num-samples-prune-regraph above 1, and 0)
    add(move="sweep", n=2, kernel="bootstrap", wiring="run", outlier_prior=0.2, N=2, threshold=0.5, alpha=1.0, subtree_prob=0.0, grid=3, n_dp=2, n_prg=2)
    add(move="sweep", n=2, kernel="semi-adapted", wiring="run", outlier_prior=0.0, N=2, threshold=0.5, alpha=1.3, subtree_prob=0.0, n_dp=3, n_prg=1)
    add(move="sweep", n=2, kernel="fully-adapted", wiring="run", outlier_prior=0.0, N=2, threshold=0.5, alpha=0.7, subtree_prob=0.0, n_dp=0, n_prg=2)
    if tier == "thorough":
        add(move="prg", n=4, outlier_prior=0.2, alpha=1.0, grid=3)
        add(move="dp", n=4, outlier_prior=0.2, alpha=1.0, grid=3)
        for kind, dims in (("flat", 1), ("peaked", 1), ("seeded", 1), ("generic", 2)):
            add(move="dp", n=4, outlier_prior=0.0, alpha=1.3, data=kind, dims=dims, seed=seed, grid=3)
            add(move="prg", n=4, outlier_prior=0.0, alpha=1.3, data=kind, dims=dims, seed=seed, grid=3)
        for k in KERNELS:
            add(move="subtree", n=3, kernel=k, wiring="library", outlier_prior=0.0, N=3, threshold=0.5, alpha=1.0, grid=3)
            add(move="subtree", n=3, kernel=k, wiring="library", outlier_prior=0.2, N=2, threshold=1.0, alpha=0.4, grid=3)
            add(move="sweep", n=3, kernel=k, wiring="run", outlier_prior=0.0, N=2, threshold=0.5, alpha=1.0, subtree_prob=0.0, grid=3)
        add(move="subtree", n=4, kernel="fully-adapted", wiring="library", outlier_prior=0.0, N=2, threshold=0.5, alpha=1.0, grid=3)
    return out


# ------------------------------------------------------------------------------------------
# subtree move: block-conditional reversibility
# ------------------------------------------------------------------------------------------
def block_of(state, tree, picked_label):
    """The block the subtree move resamples when the random data point sits in clone
    `picked_label`: (rest of the tree, attachment clade, block data incl. all outliers)."""
    sr = tree.get_parent(picked_label)
    nd = tree.node_data
    if sr == tree.root_node_name:
        return ("WHOLE",)
    block_nodes = [sr] + tree.get_descendants(sr)
    block_data = set()
    for nm in block_nodes:
        block_data |= {dp.idx for dp in nd[nm]}
    par = tree.get_parent(sr)
    attach = None if par == tree.root_node_name else frozenset(dp.idx for dp in nd[par])
    st, outl = state
    blocks_in = {frozenset(dp.idx for dp in nd[nm]) for nm in block_nodes}
    rest = frozenset((b, p) for b, p in st if b not in blocks_in)
    return (rest, attach, frozenset(block_data | set(outl)))


def subtree_rows(root):
    cfg, si = root
    data = S.config_data(cfg)
    states = S.config_states(cfg)
    s = states[si]
    td = S.make_tree_dist(cfg)
    ref_tree = oracle.build(s, data)
    idxs = set(range(cfg["n"]))
    by_block = {}
    pick_prob = {}
    n = 0

    def run(rng):
        S.clear_caches()
        tree = oracle.build(s, data)
        try:
            new = S.apply_move(cfg, rng, tree, td)
        except Exception as e:
            return ("EXC", "%s: %s" % (type(e).__name__, e))
        if S.wellformed_problems(new, idxs):
            return ("MALFORMED", "")
        picks = rng._s.picks
        return ("OK", oracle.abstract(new), picks[0] if picks else None)

    if len(ref_tree.nodes) == 0:
        return {"si": si, "by_block": {}, "n_exec": 0}
    for p, res, choices, _ in explore(run):
        n += 1
        if res[0] != "OK":
            continue
        label = res[2]
        blk = block_of(s, ref_tree, int(label)) if label is not None else ("NONE",)
        d = by_block.setdefault(blk, {})
        d[res[1]] = d.get(res[1], 0.0) + p
    out = {}
    for blk, d in by_block.items():
        tot = sum(d.values())
        out[blk] = ({y: v / tot for y, v in d.items()}, tot)
    return {"si": si, "by_block": out, "n_exec": n}


def block_reversibility(chk, cfg):
    states = S.config_states(cfg)
    lp = S.log_pi(cfg)
    roots = [(cfg, si) for si in range(len(states))]
    res = list(pool_imap(subtree_rows, roots))
    index = {s: i for i, s in enumerate(states)}
    K = {}
    for r in res:
        chk.transitions += r["n_exec"]
        chk.traces_validated += r["n_exec"]
        for blk, (row, tot) in r["by_block"].items():
            K[(r["si"], blk)] = row
    worst = 0.0
    pairs = 0
    fam = dict(c01.family(cfg), sub="block-reversibility")
    for (si, blk), row in K.items():
        if blk == ("WHOLE",):
            continue
        for y, p in row.items():
            sj = index.get(y)
            if sj is None or sj == si:
                continue
            back = K.get((sj, blk))
            if back is None:
                continue  # the block is not selectable from y: that is the known selection defect, not this oracle
            q = back.get(states[si], 0.0)
            lhs = math.exp(lp[si] - max(lp[si], lp[sj])) * p
            rhs = math.exp(lp[sj] - max(lp[si], lp[sj])) * q
            pairs += 1
            d = abs(lhs - rhs)
            worst = max(worst, d)
            if d > 1e-9:
                chk.violation(fam, {"config": cfg, "x": oracle.fmt_state(states[si]), "y": oracle.fmt_state(y),
                                    "pi_x_K_xy": lhs, "pi_y_K_yx": rhs}, {"config": cfg})
                return
    chk.bump("subtree_block_pairs_checked", pairs)
    chk.worst("subtree_block_reversibility_worst", worst)


def main(tier, seed):
    chk = Check("C04", tier, seed)
    chk.rule = ("every (move config, start tree) root: ALL executions of the real move under the enumerating generator -> exact row; "
                "non-trivial root = row with >= 2 distinct successor trees; moves: dp, prg, subtree, sweep")
    chk.assumptions = [
        "pi is the repository's own log_p_one (C03)", "finite data alphabet; n <= 3/4; N <= 3",
        "subtree move: global balance for n >= 3 is a recorded known finding; its block-conditional reversibility, "
        "exactness for n <= 2, data conservation and well-formedness are checked without exception",
    ]
    cfgs = configs(tier, seed)
    S.clear_caches()
    c01.run_configs(chk, cfgs)
    for cfg in cfgs:
        if cfg["move"] == "subtree" and cfg["n"] >= 3 and cfg.get("N", 2) == 2:
            block_reversibility(chk, cfg)
    return chk.finish()


def replay(path):
    return c01.replay(path)
