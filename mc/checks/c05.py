"""C05: emission likelihood grids implement the PyClone mutation model (through load_data)."""
import contextlib
import io
import itertools
import json
import math
import os
import shutil
import tempfile

import numpy as np

from mc import oracle
from mc.harness import Check, pool_imap

HDR = "mutation_id\tsample_id\tref_counts\talt_counts\tmajor_cn\tminor_cn\tnormal_cn\ttumour_content\terror_rate"


def ref_grid(a, b, major, minor, normal, t, eps, density, prec, G):
    """The statement, with scipy's pmfs: mixture over mutational genotypes, uniform genotype prior."""
    from scipy.stats import binom, betabinom
    from scipy.special import logsumexp

    total = major + minor
    gens = []
    for x in range(1, major + 1):
        gens.append(((normal, normal, total), (eps, eps, min(1 - eps, x / total))))
    if (normal, total, total) not in [g[0] for g in gens]:
        gens.append(((normal, total, total), (eps, eps, min(1 - eps, 1 / total))))
    f = np.linspace(0, 1, G)
    w = np.stack([np.full(G, 1 - t), t * (1 - f), t * f])  # normal, reference, variant populations
    lls = []
    d = a + b
    for cn, mu in gens:
        num = sum(w[j] * cn[j] * mu[j] for j in range(3))
        den = sum(w[j] * cn[j] for j in range(3))
        v = num / den
        if density == "binomial":
            lls.append(binom.logpmf(b, d, v))
        else:
            lls.append(betabinom.logpmf(b, d, v * prec, prec - v * prec))
    return logsumexp(np.array(lls), axis=0) - math.log(len(gens))


def _load(path, density, G, prec, outlier_prob=0.0, cluster_file=None):
    from phyclone.data.pyclone import load_data

    with contextlib.redirect_stdout(io.StringIO()):
        return load_data(path, np.random.default_rng(0), 1e-4, 0.4, False, cluster_file=cluster_file, density=density,
                         grid_size=G, outlier_prob=outlier_prob, precision=prec)


def scratch():
    return tempfile.mkdtemp(prefix="c05_", dir="/dev/shm" if os.path.isdir("/dev/shm") else None)


def grid_case(item):
    counts, density, prec, G = item
    cases = []
    rows = []
    k = 0
    for (a, b) in counts:
        for major in (1, 2, 3):
            for minor in range(0, major + 1):
                for normal in (1, 2):
                    for t in (0.1, 0.65, 1.0):
                        # 1e-9 and 1e-6 only for the binomial density: with the beta-binomial one the log-gamma differences of the
                        # reference and of the code both lose ~1e-7 (absolute) there, which says nothing about the model
                        for eps in ((1e-9, 1e-6, 1e-3, 0.02, 0.3, 0.499) if density == "binomial" else (1e-3, 0.02, 0.3, 0.499)):
                            cases.append((a, b, major, minor, normal, t, eps))
                            rows.append("m%05d\tS\t%d\t%d\t%d\t%d\t%d\t%r\t%r" % (k, a, b, major, minor, normal, t, eps))
                            k += 1
    d = scratch()
    res = {"item": item, "problems": [], "n": 0, "worst": 0.0}
    try:
        f = os.path.join(d, "in.tsv")
        with open(f, "w") as fh:
            fh.write(HDR + "\n" + "\n".join(rows) + "\n")
        data, samples = _load(f, density, G, prec)
        if len(data) != len(cases):
            res["problems"].append("loaded %d data points from %d valid mutations" % (len(data), len(cases)))
            return res
        for dp, c in zip(data, cases):
            ex = ref_grid(*c, density, prec, G)
            got = dp.value[0]
            res["n"] += 1
            if got.shape != ex.shape:
                res["problems"].append("grid shape %r for grid size %d" % (got.shape, G))
                break
            diff = np.abs(got - ex)
            w = float(np.max(diff / (1 + np.abs(ex)))) if np.all(np.isfinite(got)) else float("inf")
            res["worst"] = max(res["worst"], w if w == w else float("inf"))
            if not w <= 1e-8:
                k = int(np.argmax(diff))
                res["problems"].append("counts/cn/t/eps %r %s precision %g grid %d: point %d reported %.12g, model %.12g" % (c, density, prec, G, k, got[k], ex[k]))
                if len(res["problems"]) > 2:
                    break
    except Exception as e:
        res["problems"].append("raised %s: %s" % (type(e).__name__, e))
    finally:
        shutil.rmtree(d, ignore_errors=True)
    return res


def multisample_case(item):
    """Several samples whose rows appear in the file in an order that is NOT the sorted sample order, with
    per-sample counts, copy numbers, purity and error rate: row k of a grid must be the k-th SORTED sample."""
    density, prec, G, perm_kind = item
    samples = ["S2", "S10", "S1"]
    d = scratch()
    res = {"item": item, "problems": [], "n": 0, "worst": 0.0}
    try:
        f = os.path.join(d, "in.tsv")
        rows = []
        spec = {}
        for m in range(6):
            order = [samples, samples[::-1], [samples[1], samples[2], samples[0]]][(m + perm_kind) % 3]
            for s in order:
                j = samples.index(s)
                a, b = 30 + 7 * m + 11 * j, 3 + 5 * j + m
                major, minor, normal = 1 + (m + j) % 3, ((m + j) % 3 + j) % 2 if (1 + (m + j) % 3) >= 1 else 0, 1 + ((m + j) % 2)  # the normal copy number differs between the samples of a mutation too
                minor = min(minor, major)
                t, eps = (0.3, 0.65, 1.0)[j], (1e-3, 0.02, 0.1)[(m + j) % 3]
                spec[("q%d" % m, s)] = (a, b, major, minor, normal, t, eps)
                rows.append("q%d\t%s\t%d\t%d\t%d\t%d\t%d\t%r\t%r" % (m, s, a, b, major, minor, normal, t, eps))
        with open(f, "w") as fh:
            fh.write(HDR + "\n" + "\n".join(rows) + "\n")
        data, smp = _load(f, density, G, prec)
        if list(smp) != sorted(samples):
            res["problems"].append("samples reported as %r, expected sorted %r" % (list(smp), sorted(samples)))
        for dp in data:
            for k, s in enumerate(sorted(samples)):
                res["n"] += 1
                ex = ref_grid(*spec[(dp.name, s)], density, prec, G)
                w = float(np.max(np.abs(dp.value[k] - ex) / (1 + np.abs(ex))))
                res["worst"] = max(res["worst"], w)
                if not w <= 1e-8:
                    res["problems"].append("mutation %s: grid row %d is not the model for sample %s (the %d-th sorted sample); worst relative error %.3g" % (dp.name, k, s, k, w))
                    break
    except Exception as e:
        res["problems"].append("raised %s: %s" % (type(e).__name__, e))
    finally:
        shutil.rmtree(d, ignore_errors=True)
    return res


def norm_case(item):
    depth, density, prec, cn, t, eps = item
    from scipy.special import logsumexp

    d = scratch()
    res = {"item": item, "problems": [], "n": depth + 1, "worst": 0.0}
    try:
        f = os.path.join(d, "in.tsv")
        rows = ["m%04d\tS\t%d\t%d\t%d\t%d\t%d\t%r\t%r" % (b, depth - b, b, cn[0], cn[1], cn[2], t, eps) for b in range(depth + 1)]
        with open(f, "w") as fh:
            fh.write(HDR + "\n" + "\n".join(rows) + "\n")
        data, _ = _load(f, density, 11, prec)
        tot = np.exp(logsumexp(np.array([dp.value[0] for dp in data]), axis=0))
        res["worst"] = float(np.max(np.abs(tot - 1)))
        if not res["worst"] <= 1e-9:
            res["problems"].append("depth %d %s: sum over all alternate counts = %r" % (depth, density, tot.tolist()[:4]))
    except Exception as e:
        res["problems"].append("raised %s: %s" % (type(e).__name__, e))
    finally:
        shutil.rmtree(d, ignore_errors=True)
    return res


def cluster_case(item):
    part, p_out, samples_n = item
    d = scratch()
    res = {"item": item, "problems": [], "n": 0, "worst": 0.0}
    try:
        f = os.path.join(d, "in.tsv")
        cf = os.path.join(d, "clusters.tsv")
        muts = ["mu%d" % i for i in range(max(4, 1 + max(i for blk in part for i in blk)))]
        smp = ["T%d" % i for i in range(samples_n)]
        rows = []
        for i, m in enumerate(muts):
            for j, s in enumerate(smp):
                rows.append("%s\t%s\t%d\t%d\t2\t1\t2\t0.8\t0.01" % (m, s, 20 + 3 * (i % 7) + j, 5 + 2 * (i % 5) + 3 * j))
        with open(f, "w") as fh:
            fh.write(HDR + "\n" + "\n".join(rows) + "\n")
        cl_of = {}
        for cid, blk in enumerate(part):
            for i in blk:
                cl_of[muts[i]] = cid
        with open(cf, "w") as fh:
            fh.write("mutation_id\tsample_id\tcluster_id\n")
            for m in muts:
                for s in smp:  # PyClone-VI lists a mutation once per sample
                    fh.write("%s\t%s\t%d\n" % (m, s, cl_of[m]))
        single, _ = _load(f, "beta-binomial", 11, 400.0, outlier_prob=p_out)
        by_name = {dp.name: dp for dp in single}
        data, _ = _load(f, "beta-binomial", 11, 400.0, outlier_prob=p_out, cluster_file=cf)
        if [dp.name for dp in data] != [str(c) for c in range(len(part))] or [dp.idx for dp in data] != list(range(len(part))):
            res["problems"].append("cluster data points %r / idx %r, expected clusters 0..%d in order" % ([dp.name for dp in data], [dp.idx for dp in data], len(part) - 1))
            return res
        for cid, blk in enumerate(part):
            res["n"] += 1
            dp = data[cid]
            want = sum(by_name[muts[i]].value for i in blk)
            w = float(np.max(np.abs(dp.value - want)))
            res["worst"] = max(res["worst"], w)
            if not w <= 1e-9:
                res["problems"].append("cluster %d of %r: grid is not the sum of its members' grids (max diff %.3e)" % (cid, part, w))
            if p_out == 0:
                want_o, want_n = 0.0, 0.0
            else:
                want_o, want_n = math.log(p_out) * len(blk), math.log1p(-p_out) * len(blk)
            if not (abs(float(dp.outlier_prob) - want_o) <= 1e-12 * (1 + abs(want_o)) and abs(float(dp.outlier_prob_not) - want_n) <= 1e-12 * (1 + abs(want_n))):
                res["problems"].append("cluster %d of size %d, p=%g: outlier terms (%r, %r), expected (%r, %r)" % (cid, len(blk), p_out, dp.outlier_prob, dp.outlier_prob_not, want_o, want_n))
        for dp in single:
            wo, wn = (0.0, 0.0) if p_out == 0 else (math.log(p_out), math.log1p(-p_out))
            if abs(float(dp.outlier_prob) - wo) > 1e-12 or abs(float(dp.outlier_prob_not) - wn) > 1e-12:
                res["problems"].append("unclustered mutation: outlier terms (%r, %r), expected (%r, %r)" % (dp.outlier_prob, dp.outlier_prob_not, wo, wn))
                break
    except Exception as e:
        res["problems"].append("raised %s: %s" % (type(e).__name__, e))
    finally:
        shutil.rmtree(d, ignore_errors=True)
    return res


def main(tier, seed):
    chk = Check("C05", tier, seed)
    chk.rule = ("(ref,alt) in {0,1,7,40,10^4}^2 x all (major,minor,normal) with 1<=major<=3, minor<=major, normal in {1,2} x tumour content {0.1,0.65,1} x error "
                "rate {1e-9,1e-6,1e-3,0.02,0.3,0.499} x density x precision {1,400,1e4} x grid {2,11,101}, every case through a real input file and load_data; normalisation over every "
                "alternate count for depths {0,1,5,60}; every partition of 4 mutations into clusters; clusters of 60-800 mutations x outlier probability {1e-4,1e-9,0.4}; non-trivial = case with positive depth")
    chk.assumptions = ["oracle pmfs: scipy.stats.binom / betabinom", "tolerance 1e-8 relative on log-values"]
    vals = (0, 1, 7, 40, 10000)
    pairs = [(a, b) for a in vals for b in vals]
    rs = np.random.RandomState(seed)
    extra = [(int(rs.randint(0, 300)), int(rs.randint(0, 300))) for _ in range(3)]
    items = []
    combos = [("binomial", 1.0, G) for G in (2, 11, 101)] + [("beta-binomial", p, G) for p in (1.0, 400.0, 1e4) for G in (2, 11, 101)]
    for (dens, prec, G) in combos:
        if tier == "quick":
            chunks = [pairs[i::5] for i in range(5)] if G != 101 else [pairs[::6]]
        else:
            chunks = [pairs[i::5] for i in range(5)]
        chunks = chunks + [extra]
        for ch in chunks:
            items.append(("grid", (tuple(ch), dens, prec, G)))
    for depth in (0, 1, 5, 60):
        for dens, prec in (("binomial", 1.0), ("beta-binomial", 400.0), ("beta-binomial", 1.0)):
            for cn in ((1, 0, 2), (2, 1, 2), (3, 3, 1)):
                for t, eps in ((1.0, 1e-3), (0.3, 0.2)):
                    items.append(("norm", (depth, dens, prec, cn, t, eps)))
    for dens, prec in (("binomial", 1.0), ("beta-binomial", 400.0)):
        for G in (2, 11):
            for pk in (0, 1, 2):
                items.append(("multisample", (dens, prec, G, pk)))
    for part in oracle.partitions(range(4)):
        part = tuple(tuple(sorted(b)) for b in sorted(part, key=min))
        for p_out in (0.0, 1e-4, 0.3):
            for sn in (1, 2):
                items.append(("cluster", (part, p_out, sn)))
    # big clusters (the size enters the outlier terms as a factor: nothing may saturate), with a small one beside them
    for size in (60, 90, 150, 800):
        for p_out in (1e-4, 1e-9, 0.4):
            items.append(("cluster", ((tuple(range(size)), (size,), (size + 1, size + 2)), p_out, 1 + (size % 2))))
    for r in pool_imap(_dispatch, items, chunksize=1):
        kind, res = r
        chk.evaluations += res["n"]
        chk.transitions += res["n"]
        chk.traces_validated += res["n"]
        chk.states.add((kind, repr(res["item"])))
        chk.worst("worst_%s_error" % kind, res["worst"] if res["worst"] == res["worst"] else 1e9)
        chk.n_nontrivial_extra += res["n"] if kind != "norm" or res["item"][0] > 0 else 0
        for pr in res["problems"][:2]:
            chk.violation({"sub": kind, "what": pr.split(":")[0][:30]}, {"case": res["item"], "problem": pr}, {"kind": kind, "item": res["item"]})
        if len(chk.samples) < 3 and kind == "grid":
            chk.sample({"grid_file_case": {"counts": list(res["item"][0])[:3], "density": res["item"][1], "precision": res["item"][2], "grid": res["item"][3], "mutations_checked": res["n"]}})
    return chk.finish()


def _dispatch(it):
    kind, item = it
    return kind, {"grid": grid_case, "norm": norm_case, "cluster": cluster_case, "multisample": multisample_case}[kind](item)


def _tup(x):
    return tuple(_tup(y) for y in x) if isinstance(x, list) else x


def replay(path):
    body = json.load(open(path))
    rp = body["replay"]
    _, r = _dispatch((rp["kind"], _tup(rp["item"])))
    print(r["problems"])
    return 1 if r["problems"] else 0
