"""C17: input loading is order-independent and filters exactly as documented."""
import contextlib
import io
import itertools
import json
import math
import os
import shutil
import tempfile

import numpy as np

from mc.harness import Check, pool_imap
from mc.checks.c05 import ref_grid, scratch

MUTS = ["mB", "mA", "mC"]
SAMPLES = ["S2", "S1"]
STATES = ["ok", "missing", "cn0", "dup"]
EXTRA = "ok+cn0"  # one usable row plus a further row with major copy number zero in the same sample (the zero row alone is unusable)
G = 5


def cell_values(m, s, k=0):
    a = 10 + 3 * MUTS.index(m) + 7 * SAMPLES.index(s) + k
    return a, a // 2


def rows_for(cells, opt_cols, bad_cn=None):
    rows = []
    for (m, s), c in cells.items():
        def row(cn=2, k=0, minor=1):
            a, b = cell_values(m, s, k)
            r = [m, s, str(a), str(b), str(cn), str(minor), "2"]
            if opt_cols:
                r += ["0.%d" % (6 + MUTS.index(m)), "0.0%d" % (1 + SAMPLES.index(s))]
            return r

        if c == "ok":
            if bad_cn == (m, s):
                rows.append(row(cn=1, minor=2))
            else:
                rows.append(row())
        elif c == "cn0":
            rows.append(row(cn=0, minor=0))
        elif c == EXTRA:
            rows += [row(), row(cn=0, minor=0, k=2)]
        elif c == "dup":
            rows += [row(), row(k=1)]
    return rows


def header(opt_cols):
    h = ["mutation_id", "sample_id", "ref_counts", "alt_counts", "major_cn", "minor_cn", "normal_cn"]
    if opt_cols:
        h += ["tumour_content", "error_rate"]
    return h


def orders(rows):
    if len(rows) <= 5:
        return [list(p) for p in itertools.permutations(rows)]
    out = [rows, rows[::-1], sorted(rows), sorted(rows)[::-1]]
    for k in (1, len(rows) // 2, len(rows) - 1):
        out.append(rows[k:] + rows[:k])
    # interleave samples
    out.append(sorted(rows, key=lambda r: (r[1], r[0])))
    return out


def load(path, cluster_file):
    from phyclone.data.pyclone import load_data

    with contextlib.redirect_stdout(io.StringIO()):
        data, smp = load_data(path, np.random.default_rng(0), 1e-4, 0.4, False, cluster_file=cluster_file, density="binomial",
                              grid_size=G, outlier_prob=0.0, precision=400.0)
    return data, smp


def case(item):
    st, opt_cols, sep, clustered, tier = item
    cells = dict(zip(itertools.product(MUTS, SAMPLES), st))
    keep = sorted(m for m in MUTS if all(cells[(m, s)] in ("ok", EXTRA) for s in SAMPLES))
    usable = {s for (m, s), c in cells.items() if c in ("ok", "dup", EXTRA)}
    degenerate = any(sorted(cells[(m, s)] for s in SAMPLES) in (["dup", "missing"], ["cn0", "dup"]) for m in MUTS)
    res = {"item": item, "problems": [], "loads": 0, "class": "normal"}
    if usable != set(SAMPLES) or not keep:
        res["class"] = "excluded"
        return res
    if degenerate:
        res["class"] = "degenerate"
    rows = rows_for(cells, opt_cols)
    d = scratch()
    try:
        f = os.path.join(d, "in.tsv" if sep == "\t" else "in.csv")
        cf = None
        # integer cluster ids as PyClone-VI emits them; 10 and 2 sort differently as numbers and as strings
        cl_of = {"mA": 10, "mB": 2, "mC": 10}
        if clustered:
            cf = os.path.join(d, "clusters.tsv")
            with open(cf, "w") as fh:
                fh.write("mutation_id\tcluster_id\n" + "".join("%s\t%d\n" % (m, c) for m, c in cl_of.items()))
        outs = []
        ords = orders(rows)
        if tier == "quick" and len(ords) > 24:
            ords = ords[::5]
        for perm in ords:
            with open(f, "w") as fh:
                fh.write(sep.join(header(opt_cols)) + "\n" + "\n".join(sep.join(r) for r in perm) + "\n")
            res["loads"] += 1
            try:
                data, smp = load(f, cf)
                outs.append(("OK", tuple(dp.name for dp in data), tuple(dp.idx for dp in data), tuple(smp), np.array([dp.value for dp in data])))
            except Exception as e:
                outs.append(("EXC", type(e).__name__))
        kinds = {o[0] for o in outs}
        if res["class"] == "degenerate":
            # rejected with an error, or filtered properly: never silently mis-loaded
            if kinds == {"EXC"}:
                return res
        if kinds != {"OK"}:
            ex = [o for o in outs if o[0] == "EXC"][0]
            res["problems"].append("load raised %s for %d of %d row orders" % (ex[1], sum(o[0] == "EXC" for o in outs), len(outs)))
            return res
        o0 = outs[0]
        for o in outs[1:]:
            if o[1:4] != o0[1:4] or o[4].shape != o0[4].shape or float(np.max(np.abs(o[4] - o0[4]))) > 1e-12:
                res["problems"].append("result depends on the row order: %r vs %r" % (o0[1:4], o[1:4]))
                return res
        names, idxs, smp, vals = o0[1:]
        if list(smp) != sorted(SAMPLES):
            res["problems"].append("samples %r, expected %r" % (smp, sorted(SAMPLES)))
        t_of = (lambda m: float("0.%d" % (6 + MUTS.index(m)))) if opt_cols else (lambda m: 1.0)
        e_of = (lambda s: float("0.0%d" % (1 + SAMPLES.index(s)))) if opt_cols else (lambda s: 1e-3)

        def grid(m):
            out = []
            for s in sorted(SAMPLES):
                a, b = cell_values(m, s)
                out.append(ref_grid(a, b, 2, 1, 2, t_of(m), e_of(s), "binomial", 400.0, G))
            return np.array(out)

        if not clustered:
            if list(names) != keep or list(idxs) != list(range(len(keep))):
                res["problems"].append("kept %r (idx %r), expected %r numbered 0..%d" % (names, idxs, keep, len(keep) - 1))
            else:
                for k, m in enumerate(keep):
                    if float(np.max(np.abs(vals[k] - grid(m)))) > 1e-7:
                        res["problems"].append("mutation %s: likelihood rows do not match the model in sorted sample order" % m)
        else:
            cl = sorted({cl_of[m] for m in keep})
            if list(names) != [str(c) for c in cl] or list(idxs) != list(range(len(cl))):
                res["problems"].append("clusters %r (idx %r), expected %r numbered in sorted order" % (names, idxs, cl))
            else:
                for k, c in enumerate(cl):
                    want = sum(grid(m) for m in keep if cl_of[m] == c)
                    if float(np.max(np.abs(vals[k] - want))) > 1e-7:
                        res["problems"].append("cluster %d: grid is not the sum over its kept mutations" % c)
    except Exception as e:
        res["problems"].append("harness/loader raised %s: %s" % (type(e).__name__, e))
    finally:
        shutil.rmtree(d, ignore_errors=True)
    return res


def large_case(item):
    """Tables with more than 16 rows (sorting algorithms change behaviour with size): every (mutation, sample) cell has
    its own counts, copy numbers, purity and error rate; one mutation is dropped by each filter; several row orders."""
    n_mut, samples, sep, order_seed = item
    import random as _r

    muts = ["g%02d" % ((7 * i) % n_mut) for i in range(n_mut)]
    spec = {}
    rows = []
    dropped = {muts[1]: "missing", muts[3]: "cn0", muts[4]: "dup"} if n_mut >= 6 else {}
    for i, m in enumerate(muts):
        for j, sname in enumerate(samples):
            a, b = 25 + 3 * i + 11 * j, 4 + i + 5 * j
            major, minor, normal = 1 + (i + j) % 3, 0, 1 + (i % 2)
            minor = min(major, (i + 2 * j) % 3)
            t, eps = (0.35, 0.7, 1.0)[j % 3], (1e-3, 0.02, 0.08)[(i + j) % 3]
            kind = dropped.get(m) if j == len(samples) - 1 else None
            if kind == "missing":
                continue
            r = [m, sname, str(a), str(b), str(0 if kind == "cn0" else major), str(0 if kind == "cn0" else minor), str(normal), repr(t), repr(eps)]
            rows.append(r)
            if kind == "dup":
                rows.append(list(r))
            spec[(m, sname)] = (a, b, major, minor, normal, t, eps)
    keep = sorted(m for m in muts if m not in dropped)
    rng = _r.Random(order_seed)
    orders = [rows, rows[::-1], sorted(rows), sorted(rows, key=lambda r: (r[1], r[0])), sorted(rows, key=lambda r: (r[1], r[0]))[::-1]]
    for _ in range(3):
        sh = list(rows)
        rng.shuffle(sh)
        orders.append(sh)
    res = {"item": item, "problems": [], "loads": 0}
    d = scratch()
    try:
        f = os.path.join(d, "in.tsv" if sep == "\t" else "in.csv")
        hdr = header(True)
        ref = None
        for perm in orders:
            with open(f, "w") as fh:
                fh.write(sep.join(hdr) + "\n" + "\n".join(sep.join(r) for r in perm) + "\n")
            res["loads"] += 1
            try:
                data, smp = load(f, None)
            except Exception as e:
                res["problems"].append("load raised %s: %s" % (type(e).__name__, str(e)[:100]))
                break
            if [dp.name for dp in data] != keep or [dp.idx for dp in data] != list(range(len(keep))) or list(smp) != sorted(samples):
                res["problems"].append("kept %r / samples %r, expected %r / %r" % ([dp.name for dp in data], list(smp), keep, sorted(samples)))
                break
            bad = False
            for dp in data:
                for k, sname in enumerate(sorted(samples)):
                    ex = ref_grid(*spec[(dp.name, sname)], "binomial", 400.0, G)
                    if float(np.max(np.abs(dp.value[k] - ex))) > 1e-7:
                        res["problems"].append("table with %d rows: mutation %s likelihood row %d is not sample %s's" % (len(rows), dp.name, k, sname))
                        bad = True
                        break
                if bad:
                    break
            if bad:
                break
        # the same table with a cluster file (clusters of up to four mutations): "the same whatever the order of the rows" is
        # judged bit for bit - a cluster's grid is a floating-point sum over its members, whose order must not follow the file
        if not res["problems"]:
            cf = os.path.join(d, "clusters.tsv")
            with open(cf, "w") as fh:
                fh.write("mutation_id\tcluster_id\n" + "".join("%s\t%d\n" % (m, 3 + i // 4) for i, m in enumerate(sorted(muts))))
            first = None
            for perm in orders:
                with open(f, "w") as fh:
                    fh.write(sep.join(hdr) + "\n" + "\n".join(sep.join(r) for r in perm) + "\n")
                res["loads"] += 1
                try:
                    data, smp = load(f, cf)
                except Exception as e:
                    res["problems"].append("clustered load raised %s: %s" % (type(e).__name__, str(e)[:100]))
                    break
                cur = (tuple(dp.name for dp in data), tuple(dp.idx for dp in data), tuple(smp), [np.array(dp.value, copy=True) for dp in data],
                       [float(np.sum(dp.outlier_marginal_prob)) if hasattr(dp, "outlier_marginal_prob") else 0.0 for dp in data])
                if first is None:
                    first = cur
                    continue
                if cur[:3] != first[:3]:
                    res["problems"].append("clustered result depends on the row order: %r vs %r" % (first[:3], cur[:3]))
                    break
                diffs = [float(np.max(np.abs(a - b))) for a, b in zip(first[3], cur[3]) if a.shape == b.shape]
                if any(a.shape != b.shape or not np.array_equal(a, b) for a, b in zip(first[3], cur[3])) or first[4] != cur[4]:
                    res["problems"].append("clustered likelihood grids depend on the row order (bit-exact comparison; largest difference %.3e)" % (max(diffs) if diffs else -1))
                    break
    finally:
        shutil.rmtree(d, ignore_errors=True)
    return res


def bad_cn_case(item):
    which, sep = item
    from phyclone.utils.exceptions import MajorCopyNumberError

    cells = {k: "ok" for k in itertools.product(MUTS, SAMPLES)}
    rows = rows_for(cells, False, bad_cn=which)
    d = scratch()
    try:
        f = os.path.join(d, "in.tsv")
        with open(f, "w") as fh:
            fh.write(sep.join(header(False)) + "\n" + "\n".join(sep.join(r) for r in rows) + "\n")
        try:
            load(f, None)
            return {"item": item, "problems": ["major copy number below the minor one on %r was accepted" % (which,)]}
        except MajorCopyNumberError:
            return {"item": item, "problems": []}
        except Exception as e:
            return {"item": item, "problems": []}  # rejected with some error
    finally:
        shutil.rmtree(d, ignore_errors=True)


def main(tier, seed):
    chk = Check("C17", tier, seed)
    chk.rule = ("all 4^6 tables over mutations {mB,mA,mC} x samples {S2,S1} with each cell in {ok, missing, cn0, duplicated}, minus the two excluded families, plus the tables with one cell (or both cells of a mutation; thorough: any cells) holding a usable row AND an extra zero-copy-number row; "
                "x optional columns present/absent x tab/comma x with/without cluster file; ALL row permutations for tables of <= 5 rows, 8 structured orders "
                "otherwise; oracle: pure-Python filter + the C05 emission model; non-trivial = table with at least one dropped mutation")
    chk.assumptions = ["degenerate offsetting tables (duplicate in one sample exactly offsetting a missing/cn0 row in the other) must be rejected or correctly filtered", "values compared at 1e-7 to the scipy model, 1e-12 across row orders"]
    items = []
    variants = list(itertools.product((False, True), ("\t", ","), (False, True)))
    for ti, st in enumerate(itertools.product(STATES, repeat=6)):
        vs = variants if tier == "thorough" else [variants[ti % 8], variants[(ti * 3 + 5) % 8]]
        for (oc, sep, cl) in vs:
            items.append((st, oc, sep, cl, tier))
    # the fifth cell state: every table with one such cell (quick), every table over the five states (thorough)
    if tier == "thorough":
        for ti, st in enumerate(itertools.product(STATES + [EXTRA], repeat=6)):
            if EXTRA in st:
                for (oc, sep, cl) in (variants[ti % 8], variants[(ti * 3 + 5) % 8]):
                    items.append((st, oc, sep, cl, tier))
    else:
        ti = 0
        for pos in range(6):
            for rest in itertools.product(STATES, repeat=5):
                ti += 1
                st = rest[:pos] + (EXTRA,) + rest[pos:]
                oc, sep, cl = variants[ti % 8]
                items.append((st, oc, sep, cl, tier))
        for mi in range(3):
            for rest in itertools.product(STATES, repeat=4):
                ti += 1
                st = list(rest[:2 * mi]) + [EXTRA, EXTRA] + list(rest[2 * mi:])
                oc, sep, cl = variants[ti % 8]
                items.append((tuple(st), oc, sep, cl, tier))
    classes = {}
    for r in pool_imap(case, items, chunksize=16):
        st = r["item"][0]
        classes[r["class"]] = classes.get(r["class"], 0) + 1
        if r["class"] == "excluded":
            continue
        chk.states.add(st)
        chk.transitions += r["loads"]
        chk.traces_validated += r["loads"]
        if any(c != "ok" for c in st):
            chk.nontrivial.add(st)
        for pr in r["problems"][:2]:
            chk.violation({"sub": "load", "class": r["class"], "what": pr.split(":")[0][:40]},
                          {"cells": dict(zip(["%s/%s" % k for k in itertools.product(MUTS, SAMPLES)], st)), "optional_columns": r["item"][1], "sep": r["item"][2], "clustered": r["item"][3], "problem": pr},
                          {"item": list(r["item"])})
        if len(chk.samples) < 3 and r["class"] == "normal" and st.count("ok") == 4:
            chk.sample({"cells": dict(zip(["%s/%s" % k for k in itertools.product(MUTS, SAMPLES)], st)), "row_orders_loaded": r["loads"]})
    litems = []
    for n_mut, smp in ((9, ["S2", "S1"]), (10, ["S2", "S1"]), (6, ["S2", "S10", "S1"]), (12, ["S2", "S10", "S1"]), (5, ["B", "A", "D", "C"]), (40, ["S2", "S1"]),
                          (4, ["S%d" % i for i in range(1, 13)]), (3, [str(i) for i in (1, 2, 10, 100, 11, 3, 20, 4, 5, 6, 7)])):
        for sep in ("\t", ","):
            litems.append((n_mut, smp, sep, 100 + seed))
    for r in pool_imap(large_case, litems, chunksize=1):
        chk.transitions += r["loads"]
        chk.traces_validated += r["loads"]
        chk.states.add(("large",) + (r["item"][0], tuple(r["item"][1]), r["item"][2]))
        chk.nontrivial.add(("large",) + (r["item"][0], tuple(r["item"][1]), r["item"][2]))
        for pr in r["problems"][:2]:
            chk.violation({"sub": "load-large-table", "what": pr.split(":")[0][:40]}, {"mutations": r["item"][0], "samples": r["item"][1], "problem": pr}, {"large": [r["item"][0], r["item"][1], r["item"][2], r["item"][3]]})
    for which in itertools.product(MUTS, SAMPLES):
        for sep in ("\t", ","):
            r = bad_cn_case((which, sep))
            chk.transitions += 1
            for pr in r["problems"]:
                chk.violation({"sub": "cn-validation"}, {"problem": pr}, {"bad_cn": list(which)})
    chk.note("table_classes", classes)
    return chk.finish()


def replay(path):
    body = json.load(open(path))
    rp = body["replay"]
    if "large" in rp:
        r = large_case((rp["large"][0], rp["large"][1], rp["large"][2], rp["large"][3]))
    elif "bad_cn" in rp:
        r = bad_cn_case((tuple(rp["bad_cn"]), "\t"))
    else:
        it = rp["item"]
        r = case((tuple(it[0]), it[1], it[2], it[3], it[4]))
    print(r["problems"])
    return 1 if r["problems"] else 0
