"""C03: the joint log-density implements the FS-CRP model and depends only on the tree;
trees compare and hash equal exactly when they have the same clades and outliers."""
import itertools
import json
import math

import numpy as np

from mc import oracle
from mc.harness import Check, pool_imap

ALPHAS = (0.3, 1.0, 2.5)


def build_smc_order(state, data, order):
    """Build the tree one data point at a time in the given (compatible) order, the way the
    conditional SMC sampler reconstructs its retained path."""
    from phyclone.tree import Tree

    st, outl = state
    dmap = {d.idx: d for d in data}
    block_of = {i: b for b, _ in st for i in b}
    ch = oracle.children_map(state)
    tree = Tree(data[0].grid_size)
    node_of = {}
    for i in order:
        tree = tree.copy()
        if i in outl:
            tree.add_data_point_to_outliers(dmap[i])
        elif block_of[i] in node_of:
            tree.add_data_point_to_node(dmap[i], node_of[block_of[i]])
        else:
            b = block_of[i]
            kids = [node_of[c] for c in ch.get(b, [])]
            node_of[b] = tree.create_root_node(children=kids)
            tree.add_data_point_to_node(dmap[i], node_of[b])
    return tree


def variants(state, data, n):
    from phyclone.tree import Tree

    out = {}
    t = oracle.build(state, data)
    out["post-order"] = t
    out["reversed-siblings"] = oracle.build(state, data, reverse_siblings=True)
    out["from_dict"] = Tree.from_dict(t.to_dict())
    r = oracle.build(state, data)
    r.relabel_nodes()
    out["relabelled"] = r
    exts = oracle.linear_extensions(state)
    if n <= 3:
        for k, od in enumerate(exts):
            out["smc-order-%s" % "".join(map(str, od))] = build_smc_order(state, data, od)
    else:
        out["smc-order-first"] = build_smc_order(state, data, exts[0])
        out["smc-order-last"] = build_smc_order(state, data, exts[-1])
    # shape first, fill afterwards: every clone is created with one data point, the rest are added later
    # (also into clones deep in the tree), as a caller of the public API may do
    dmap = {d.idx: d for d in data}
    if any(len(b) > 1 for b, _ in state[0]):
        skeleton = (frozenset((frozenset([min(b)]), (frozenset([min(p)]) if p is not None else None)) for b, p in state[0]), frozenset())
        t2 = oracle.build(skeleton, data)
        nd = t2.node_data
        name_of = {min(dp.idx for dp in v): k for k, v in nd.items() if k != t2.outlier_node_name}
        for b, _ in sorted(state[0], key=lambda bp: sorted(bp[0])):
            for i in sorted(b)[1:]:
                t2.add_data_point_to_node(dmap[i], name_of[min(b)])
        for i in sorted(state[1]):
            t2.add_data_point_to_outliers(dmap[i])
        out["fill-after-build"] = t2
        # a data point that arrives by a Gibbs move (copy, remove, add) from the outlier set / another clone
        big = sorted([b for b, _ in state[0] if len(b) > 1], key=sorted)[-1]
        i = max(big)
        t3 = out["fill-after-build"].copy()
        src = name_of[min(big)]
        others = [k for k in t3.nodes if k != src]
        t3.remove_data_point_from_node(dmap[i], src)
        if others:
            t3.add_data_point_to_node(dmap[i], others[0])
            t3 = t3.copy()
            t3.remove_data_point_from_node(dmap[i], others[0])
        else:
            t3.add_data_point_to_outliers(dmap[i])
            t3 = t3.copy()
            t3.remove_data_point_from_node(dmap[i], t3.outlier_node_name)
        t3.add_data_point_to_node(dmap[i], src)
        out["moved-point"] = t3
    # via prune-and-regraft back to the same place
    base = oracle.build(state, data)
    for v in base.nodes:
        par = base.get_parent(v)
        if par == base.root_node_name and len(base.nodes) == 1:
            continue
        pr = base.copy()
        sub = pr.get_subtree(v)
        pr.remove_subtree(sub)
        pr.add_subtree(sub, parent=None if par == base.root_node_name else par)
        pr.update()
        out["prune-regraft-%r" % (v,)] = pr
        break
    return out


def case(item):
    n, si, kind, op_mode, seed = item
    from phyclone.tree import FSCRPDistribution, TreeJointDistribution

    states = oracle.all_states(n, outliers=True)
    s = states[si]
    op = {"none": 0.0, "tiny": 1e-4, "big": 0.3, "het": 0.3, "het0": 0.3}[op_mode]
    data = oracle.make_data(n, dims=(2 if kind in ("generic2", "apart2") else 1), grid=3, kind=("generic" if kind in ("generic2", "apart2") else kind), seed=seed,
                            outlier_prob=op, het=("zeros" if op_mode == "het0" else op_mode == "het"))
    if kind == "apart2":
        # two samples of very different informativeness: the second sample's likelihoods lie ~1500 log units below the first's
        from phyclone.data.base import DataPoint

        shifted = []
        for d_ in data:
            v = d_.value.copy()
            v[1, :] -= 1500.0 + 40.0 * d_.idx
            shifted.append(DataPoint(d_.idx, v, outlier_prob=d_.outlier_prob, outlier_prob_not=d_.outlier_prob_not))  # derived fields are computed at construction
        data = shifted
    res = {"item": item, "problems": [], "evals": 0, "worst": 0.0, "hashes": None}
    try:
        vs = variants(s, data, n)
    except Exception as e:
        res["problems"].append("building a variant raised %s: %s" % (type(e).__name__, e))
        return res
    for nm, t in vs.items():
        if oracle.abstract(t) != s:
            res["problems"].append("harness: variant %s is not the intended tree" % nm)
            return res
    K = len(s[0])
    G = 3
    literal = (G ** K) <= 4000
    dt = oracle.exact_root_vector if literal else oracle.recursion_root_vector
    # "for every concentration value": also ONE distribution object whose concentration is re-assigned between
    # evaluations, as the run loop does after every concentration update (score, assign, score again)
    shared = TreeJointDistribution(FSCRPDistribution(ALPHAS[-1]))
    first = next(iter(vs.values()))
    for alpha in ALPHAS + ALPHAS[:1]:
        try:
            float(shared.log_p_one(first))
            shared.prior.alpha = alpha
            got_s = (float(shared.log_p(first)), float(shared.log_p_one(first)))
            both_s = tuple(float(x) for x in shared.compute_both_log_p_and_log_p_one(first))
        except Exception as e:
            res["problems"].append("re-used distribution object: density raised %s: %s" % (type(e).__name__, e))
            break
        res["evals"] += 4
        wm = oracle.ref_log_joint(s, data, alpha, "marginal", data_term=dt)
        wo = oracle.ref_log_joint(s, data, alpha, "one", data_term=dt)
        for label, g, w in (("log_p", got_s[0], wm), ("log_p_one", got_s[1], wo), ("fused log_p", both_s[0], wm), ("fused log_p_one", both_s[1], wo)):
            if not abs(g - w) <= 1e-8 * (1 + abs(w)):
                res["problems"].append("distribution object re-used after its concentration was set to alpha=%g (%s): %s = %.12g, model = %.12g" % (alpha, op_mode, label, g, w))
    for alpha in ALPHAS:
        td = TreeJointDistribution(FSCRPDistribution(alpha))
        want_m = oracle.ref_log_joint(s, data, alpha, "marginal", data_term=dt)
        want_o = oracle.ref_log_joint(s, data, alpha, "one", data_term=dt)
        for nm, t in vs.items():
            try:
                got = (float(td.log_p(t)), float(td.log_p_one(t)))
                both = tuple(float(x) for x in td.compute_both_log_p_and_log_p_one(t))
            except Exception as e:
                res["problems"].append("%s: density raised %s: %s" % (nm, type(e).__name__, e))
                continue
            res["evals"] += 4
            for label, g, w in (("log_p", got[0], want_m), ("log_p_one", got[1], want_o), ("fused log_p", both[0], want_m), ("fused log_p_one", both[1], want_o)):
                d = abs(g - w)
                if d == d:
                    res["worst"] = max(res["worst"], d / (1 + abs(w)))
                if not d <= 1e-8 * (1 + abs(w)):
                    res["problems"].append("%s alpha=%g (%s): %s = %.12g, model = %.12g" % (nm, alpha, op_mode, label, g, w))
    # identity within the state
    ts = list(vs.items())
    h0 = hash(ts[0][1])
    for nm, t in ts[1:]:
        if not (t == ts[0][1]) or not (ts[0][1] == t):
            res["problems"].append("two builds of the same tree compare unequal (%s vs %s)" % (ts[0][0], nm))
        if hash(t) != h0:
            res["problems"].append("two builds of the same tree hash differently (%s vs %s)" % (ts[0][0], nm))
    return res


class _RefPoint(object):
    """What the model needs from a data point, with the outlier prior terms written down from the input files."""

    def __init__(self, idx, value, lo, lo_not):
        self.idx, self.value, self.outlier_prob, self.outlier_prob_not = idx, value, lo, lo_not


def loaded_case(item):
    """The density of trees over data points that come out of the real loader: the outlier prior terms of the model are
    size * log p and size * log(1 - p) from the cluster FILE (every layout PyClone-VI and hand-written files use)."""
    import math
    import os
    import shutil
    import numpy as np
    from phyclone.tree import FSCRPDistribution, TreeJointDistribution
    from mc.checks import c05

    layout, nsamp, p, alpha = item
    res = {"item": item, "problems": [], "evals": 0, "worst": 0.0}
    d = c05.scratch()
    try:
        samples = ["S%d" % j for j in range(nsamp)]
        clusters = {0: ["mA", "mB"], 1: ["mC"], 2: ["mD", "mE", "mF"]}
        rows = []
        for k, m in enumerate(sorted(x for v in clusters.values() for x in v)):
            for j, smp in enumerate(samples):
                rows.append("%s\t%s\t%d\t%d\t2\t1\t2\t%r\t0.001" % (m, smp, 40 + 9 * k + 5 * j, 4 + 6 * ((k + 2 * j) % 4), 0.7 + 0.1 * j))
        f = os.path.join(d, "in.tsv")
        with open(f, "w") as fh:
            fh.write(c05.HDR + "\n" + "\n".join(rows) + "\n")
        cf = os.path.join(d, "clusters.tsv")
        with open(cf, "w") as fh:
            if layout == "per-mutation":
                fh.write("mutation_id\tcluster_id\n")
                for c, ms in clusters.items():
                    for m in ms:
                        fh.write("%s\t%d\n" % (m, c))
            elif layout == "per-sample":
                # PyClone-VI output: one row per mutation and sample, with that sample's prevalence
                fh.write("mutation_id\tsample_id\tcluster_id\tcellular_prevalence\tcellular_prevalence_std\tcluster_assignment_prob\n")
                for c, ms in clusters.items():
                    for m in ms:
                        for j, smp in enumerate(samples):
                            fh.write("%s\t%s\t%d\t%r\t0.01\t1.0\n" % (m, smp, c, 0.2 + 0.1 * c + 0.05 * j))
            else:  # per-sample rows that repeat identically (a file concatenated per sample without the sample columns)
                fh.write("mutation_id\tcluster_id\n")
                for smp in samples:
                    for c, ms in clusters.items():
                        for m in ms:
                            fh.write("%s\t%d\n" % (m, c))
        data, smp_out = c05._load(f, "beta-binomial", 3, 400.0, outlier_prob=p, cluster_file=cf)
        data = list(data)
        if len(data) != 3:
            res["problems"].append("loader returned %d data points for 3 clusters" % len(data))
            return res
        sizes = {str(c): len(ms) for c, ms in clusters.items()}
        ref = []
        for dp in data:
            sz = sizes[str(dp.name)]
            lo, lo_not = (0.0, 0.0) if p == 0 else (sz * math.log(p), sz * math.log1p(-p))
            ref.append(_RefPoint(dp.idx, np.asarray(dp.value), lo, lo_not))
        td = TreeJointDistribution(FSCRPDistribution(alpha))
        for s_ in oracle.all_states(3, outliers=True):
            t = oracle.build(s_, data)
            want_m = oracle.ref_log_joint(s_, ref, alpha, "marginal", data_term=oracle.exact_root_vector)
            want_o = oracle.ref_log_joint(s_, ref, alpha, "one", data_term=oracle.exact_root_vector)
            got = (float(td.log_p(t)), float(td.log_p_one(t)))
            res["evals"] += 2
            for label, g, w in (("log_p", got[0], want_m), ("log_p_one", got[1], want_o)):
                dd = abs(g - w)
                if dd == dd:
                    res["worst"] = max(res["worst"], dd / (1 + abs(w)))
                if not dd <= 1e-8 * (1 + abs(w)):
                    res["problems"].append("loaded data (%s cluster file, %d samples, p=%g) tree %r: %s = %.12g, model = %.12g" % (layout, nsamp, p, oracle.fmt_state(s_), label, g, w))
                    if len(res["problems"]) >= 2:
                        return res
    except Exception as e:
        res["problems"].append("raised %s: %s" % (type(e).__name__, str(e)[:150]))
    finally:
        shutil.rmtree(d, ignore_errors=True)
    return res


def large_case(item):
    """Larger trees (8 and 12 clones, deep and wide, with outliers): closed-form model with the O(G^2) recursion data term."""
    par, kind, alpha, seed = item
    from phyclone.tree import FSCRPDistribution, TreeJointDistribution, Tree
    from mc.checks.c02 import forest_state

    K = len(par)
    state, n_in = forest_state(par, [1 + (i % 3 == 1) for i in range(K)])
    state = (state[0], frozenset([n_in, n_in + 1]))
    data = oracle.make_data(n_in + 2, dims=2, grid=5, kind=kind, seed=seed, outlier_prob=0.3, het=True)
    res = {"item": item, "problems": [], "evals": 0, "worst": 0.0}
    td = TreeJointDistribution(FSCRPDistribution(alpha))
    try:
        trees = {"post-order": oracle.build(state, data), "reversed+relabel": oracle.build(state, data, reverse_siblings=True)}
        trees["reversed+relabel"].relabel_nodes()
        trees["from_dict"] = Tree.from_dict(trees["post-order"].to_dict())
        want = {"log_p": oracle.ref_log_joint(state, data, alpha, "marginal"), "log_p_one": oracle.ref_log_joint(state, data, alpha, "one")}
        for nm, t in trees.items():
            both = td.compute_both_log_p_and_log_p_one(t)
            for label, g in (("log_p", float(td.log_p(t))), ("log_p_one", float(td.log_p_one(t))), ("fused log_p", float(both[0])), ("fused log_p_one", float(both[1]))):
                w = want[label.replace("fused ", "")]
                res["evals"] += 1
                res["worst"] = max(res["worst"], abs(g - w) / (1 + abs(w)))
                if not abs(g - w) <= 1e-8 * (1 + abs(w)):
                    res["problems"].append("%s: %s = %.12g, model = %.12g (forest %r)" % (nm, label, g, w, list(par)))
        h = {hash(t) for t in trees.values()}
        if len(h) != 1 or not all(a == b for a in trees.values() for b in trees.values()):
            res["problems"].append("builds of the same large tree do not compare/hash equal")
    except Exception as e:
        res["problems"].append("raised %s: %s" % (type(e).__name__, str(e)[:150]))
    return res


def identity_cross(n):
    """a == b <=> same abstract state, over one representative per state (all pairs)."""
    data = oracle.make_data(n, grid=3, outlier_prob=0.2)
    # trees over every SUBSET of the data points too (partial trees, as SMC particles hold them):
    # same clades but different outliers is only possible across different data subsets
    states = []
    for r in range(n + 1):
        for sub in itertools.combinations(range(n), r):
            states.extend(oracle.all_states(len(sub), outliers=True, idxs=sub))
    trees = [oracle.build(s, data) for s in states]
    alt = [oracle.build(s, data, reverse_siblings=True) for s in states]
    for t in alt:
        t.relabel_nodes()
    probs = []
    pairs = 0
    for i in range(len(states)):
        for j in range(i, len(states)):
            eq = trees[i] == alt[j]
            eq2 = alt[j] == trees[i]
            pairs += 1
            if eq != (i == j) or eq2 != (i == j):
                probs.append(("equal" if eq else "unequal", oracle.fmt_state(states[i]), oracle.fmt_state(states[j])))
                if len(probs) > 3:
                    return probs, pairs
            if i == j and hash(trees[i]) != hash(alt[j]):
                probs.append(("hash differs", oracle.fmt_state(states[i]), None))
    return probs, pairs


def main(tier, seed):
    chk = Check("C03", tier, seed)
    chk.rule = ("every tree over n<=4 data points incl. every outlier subset (427 trees) x alpha {0.3,1,2.5} x outlier prior {0,1e-4,0.3,heterogeneous,heterogeneous with zeros} x data "
                "alphabet; each tree built post-order, reversed siblings, from_dict, relabelled, in EVERY compatible SMC data order (n<=3) and via "
                "prune-regraft; log_p, log_p_one and the fused variant vs the closed-form model with the literal-sum data term; all pairs of trees for "
                "==/hash; every tree over 3 clustered data points produced by the real loader from input + cluster files in three layouts x 1-3 samples "
                "x outlier prior {0,1e-4,0.3} (outlier terms of the model taken from the files); trees that share a grafted subtree object with a tree edited in place keep the model's value and their identity; non-trivial = tree with >= 2 clones or an outlier")
    chk.assumptions = ["reference model: mc/oracle.py ref_log_joint (closed formulas from the statement; the 1/1000-per-extra-root penalty includes its normaliser)",
                       "tolerance 1e-8 relative", "grid size 3 so the data term is the literal sum"]
    items = []
    for n in (1, 2, 3, 4):
        ns = len(oracle.all_states(n, outliers=True))
        for si in range(ns):
            kinds = ["generic", "flat", "peaked", "seeded", "generic2", "apart2"]
            ops = ["none", "tiny", "big", "het", "het0"]
            if n == 4 and tier == "quick":
                combos = [(kinds[si % 6], ops[si % 5]), (kinds[(si + 2) % 6], ops[(si + 1) % 5]), (kinds[(si + 3) % 6], "het0")]
            else:
                combos = [(k, o) for k in kinds for o in ops]
                if tier == "quick":
                    combos = combos[si % 3::3]
            for k, o in combos:
                items.append((n, si, k, o, seed))
    for r in pool_imap(case, items, chunksize=4):
        n, si, kind, opm, _ = r["item"]
        s = oracle.all_states(n, outliers=True)[si]
        chk.states.add((n, si))
        chk.evaluations += r["evals"]
        chk.transitions += r["evals"]
        chk.traces_validated += r["evals"]
        chk.worst("worst_relative_error", r["worst"])
        if len(s[0]) >= 2 or s[1]:
            chk.nontrivial.add((n, si))
        for pr in r["problems"][:2]:
            chk.violation({"sub": "density" if "=" in pr else "identity", "n": n, "what": pr.split(":")[-1].strip()[:30] if "=" not in pr else pr.split("):")[-1].split("=")[0].strip()},
                          {"tree": oracle.fmt_state(s), "data": kind, "outlier_prior": opm, "problem": pr}, {"item": list(r["item"])})
        if len(chk.samples) < 3 and n == 3 and len(s[0]) == 3:
            chk.sample({"tree": oracle.fmt_state(s), "data": kind, "outlier_prior": opm, "density_evaluations": r["evals"]})
    from mc.checks.c02 import large_forests

    litems = [(par, kind, a, seed) for par in large_forests() for kind, a in (("generic", 0.3), ("peaked", 2.5))]
    for r in pool_imap(large_case, litems, chunksize=2):
        chk.evaluations += r["evals"]
        chk.transitions += r["evals"]
        chk.states.add(("large", r["item"][0]))
        chk.nontrivial.add(("large", r["item"][0], r["item"][1]))
        chk.worst("worst_relative_error", r["worst"])
        for pr in r["problems"][:2]:
            chk.violation({"sub": "density-large", "what": pr.split(":")[1].split("=")[0].strip()[:30] if "=" in pr else pr[:30]}, {"problem": pr}, {"large": [list(r["item"][0]), r["item"][1], r["item"][2], r["item"][3]]})
    loaded = [(lay, ns_, p_, a) for lay in ("per-mutation", "per-sample", "repeated") for ns_ in (1, 2, 3) for p_ in (0.0, 1e-4, 0.3) for a in ((1.0,) if tier == "quick" else ALPHAS)]
    for r in pool_imap(loaded_case, loaded, chunksize=1):
        chk.evaluations += r["evals"]
        chk.transitions += r["evals"]
        chk.states.add(("loaded",) + tuple(r["item"][:3]))
        chk.nontrivial.add(("loaded",) + tuple(r["item"]))
        chk.worst("worst_relative_error", r["worst"])
        for pr in r["problems"][:2]:
            chk.violation({"sub": "density-loaded", "layout": r["item"][0], "samples": r["item"][1], "what": pr.split(":")[0][:30] if "=" not in pr else pr.split(":")[-1].split("=")[0].strip()},
                          {"problem": pr}, {"loaded": list(r["item"])})
    # the value depends on the tree alone: several live trees that went through one grafted subtree object, one of them edited in place
    from mc.checks import c06

    iso = [(4, si, seed, "model") for si in range(len(oracle.all_states(3, outliers=True)))]
    if tier == "thorough":
        iso += [(5, si, seed, "model") for si in range(len(oracle.all_states(4, outliers=True)))]
    for r in pool_imap(c06.isolation_work, iso, chunksize=2):
        chk.evaluations += r["n"]
        chk.transitions += r["n"]
        chk.states.add(("isolation",) + tuple(r["item"][:2]))
        chk.nontrivial.add(("isolation",) + tuple(r["item"][:2]))
        for pr in r["problems"][:2]:
            chk.violation({"sub": "isolation", "what": pr["what"].split(":")[0][:60]}, {"problem": pr["what"], "context": pr["ctx"]}, {"isolation": list(r["item"])})
    for n in ((2, 3) if tier == "quick" else (2, 3, 4)):
        probs, pairs = identity_cross(n)
        chk.evaluations += pairs
        chk.bump("tree_pairs_compared", pairs)
        for pr in probs[:2]:
            chk.violation({"sub": "identity", "n": n, "what": pr[0]}, {"problem": pr}, {"identity_n": n})
    return chk.finish()


def replay(path):
    body = json.load(open(path))
    rp = body["replay"]
    if "large" in rp:
        r = large_case((tuple(rp["large"][0]), rp["large"][1], rp["large"][2], rp["large"][3]))
        print(r["problems"])
        return 1 if r["problems"] else 0
    if "isolation" in rp:
        from mc.checks import c06

        r = c06.isolation_work(tuple(rp["isolation"]))
        print(r["problems"])
        return 1 if r["problems"] else 0
    if "loaded" in rp:
        r = loaded_case(tuple(rp["loaded"]))
        print(r["problems"])
        return 1 if r["problems"] else 0
    if "identity_n" in rp:
        probs, _ = identity_cross(rp["identity_n"])
        print(probs)
        return 1 if probs else 0
    it = rp["item"]
    r = case(tuple(it))
    print(r["problems"])
    return 1 if r["problems"] else 0
