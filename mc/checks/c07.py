"""C07: every tree is a well-formed forest and no move loses or duplicates data.

(a) the well-formedness invariant in every state of the edit-history BFS (E3);
(b) the result of EVERY execution (EnumRNG) of the burn-in SMC sampler, the particle-Gibbs
    update, the subtree update, the data-point and the prune-regraft move, from every start tree.
"""
import json

from mc import editbfs, oracle, stationarity as S
from mc.enumrng import explore
from mc.harness import Check, pool_imap
from mc.invariants import wellformed
from mc.checks import c06


def make_invariant(data):
    def inv(t_before, ev, t, depth):
        return wellformed(t, editbfs.expected_data(t_before, ev))

    return inv


def sampler_case(item):
    cfg, si = item
    data = S.config_data(cfg)
    states = S.config_states(cfg)
    s = states[si]
    td = S.make_tree_dist(cfg)
    idxs = set(range(cfg["n"]))
    res = {"item": item, "n": 0, "problems": [], "results": set()}

    def run(rng):
        S.clear_caches()
        tree = oracle.build(s, data)
        recorded = tree.to_dict()  # what the run loop put into the trace before handing the tree to the next move
        if cfg["move"] == "burnin":
            new = S.make_samplers(cfg, rng, td).burnin_sampler.sample_tree(tree)
        else:
            new = S.apply_move(cfg, rng, tree, td)
        probs = wellformed(new, idxs)
        try:
            from phyclone.tree import Tree

            old = Tree.from_dict(recorded)
            wf = wellformed(old, idxs)
            if wf:
                probs = list(probs) + ["the tree recorded before the move lost or gained data during the move: " + wf[0]]
            elif oracle.abstract(old) != s:
                probs = list(probs) + ["the tree recorded before the move changed during the move"]
        except Exception as e:
            probs = list(probs) + ["the tree recorded before the move no longer restores: %s" % type(e).__name__]
        # the input object handed to the move must not be left corrupted either when it is returned
        return tuple(probs), oracle.state_key(oracle.abstract(new)) if not probs else None

    try:
        for p, (probs, key), choices, _ in explore(run):
            res["n"] += 1
            if probs and len(res["problems"]) < 2:
                res["problems"].append({"problems": list(probs)[:3], "choices": choices})
            if key:
                res["results"].add(key)
    except Exception as e:
        res["problems"].append({"problems": ["%s: %s" % (type(e).__name__, e)], "choices": []})
    res["results"] = len(res["results"])
    return res


def sampler_items(tier):
    out = []
    ks = ["bootstrap", "semi-adapted", "fully-adapted"]
    for k in ks:
        for op in (0.0, 0.2):
            for n in (1, 2, 3):
                base = dict(n=n, kernel=k, wiring="run", outlier_prior=op, N=2, threshold=0.5, alpha=1.0, grid=3)
                if n == 3 and op > 0 and tier == "quick" and k != "semi-adapted":
                    continue
                moves = ["burnin", "pg", "subtree"] + (["dp", "prg"] if k == "semi-adapted" else [])
                for mv in moves:
                    cfg = dict(base, move=mv)
                    ns = len(S.config_states(cfg))
                    idxs = [0] if mv == "burnin" else range(ns)  # burn-in ignores the shape of its input
                    for si in idxs:
                        out.append((cfg, si))
    return out


def main(tier, seed):
    chk = Check("C07", tier, seed)
    chk.rule = ("(a) every state of the edit-history BFS (same grammar and bounds as C06); (b) every execution of burn-in SMC / particle Gibbs / "
                "subtree / data-point / prune-regraft from every start tree over n<=3 data points, three proposals, outliers on/off; invariant: one "
                "parent per clone, reachable from the virtual root, unique names, name<->index maps inverse and agreeing with payloads, payload idxs = "
                "data lists, every data point in exactly one place, data set = the one given (also for the dictionary form recorded before the move, restored after it); non-trivial = non-empty tree / root with >= 2 results")
    chk.assumptions = ["reads the Tree's slots directly (closed list: __slots__)"]
    for r in c06.runs(tier, seed):
        c06.run_one(chk, r, seed, pid="C07", make_inv=make_invariant)
    items = sampler_items(tier)
    S.clear_caches()
    for r in pool_imap(sampler_case, items, chunksize=2):
        cfg, si = r["item"]
        chk.transitions += r["n"]
        chk.traces_validated += r["n"]
        if r["results"] >= 2:
            chk.nontrivial.add(json.dumps([cfg, si], sort_keys=True))
        chk.bump("sampler_executions", r["n"])
        for pr in r["problems"]:
            chk.violation({"sub": "sampler", "move": cfg["move"], "kernel": cfg["kernel"], "outliers": cfg["outlier_prior"] > 0, "n": cfg["n"]},
                          {"config": cfg, "start": oracle.fmt_state(S.config_states(cfg)[si]), "problem": pr},
                          {"kind": "sampler", "config": cfg, "start_index": si, "choices": pr["choices"]})
    chk.note("sampler_roots", len(items))
    return chk.finish()


def replay(path):
    body = json.load(open(path))
    if body["replay"].get("kind") == "sampler":
        rp = body["replay"]
        r = sampler_case((rp["config"], rp["start_index"]))
        print(r["problems"])
        return 1 if r["problems"] else 0
    return c06.replay(path, make_inv=make_invariant)
