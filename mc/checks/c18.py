"""C18: a seeded run is reproducible regardless of scheduling and hash seed.

E5: a TLA+ model of the process pool (mc/tla/ChainPool.tla) is explored exhaustively by TLC; every
terminal state of the state graph is a schedule class: per worker the chains it completed, in
order, and the global completion order.  Every class is replayed against the implementation:
each (chain, warm history) pair in a fresh process through the real run() wiring with a scripted
executor, each completion order through the real output writer; plus real spawn-pool runs under
varied hash seed and CPU affinity.  The same classes are generated independently in Python.
"""
import itertools
import json
import os
import re
import shutil
import subprocess
import sys
import tempfile

from mc.harness import Check, VERIF

WORKER = os.path.join(VERIF, "mc", "c18_worker.py")
TLA_DIR = os.path.join(VERIF, "mc", "tla")


# ------------------------------------------------------------------------------------------
# the model: TLC state graph -> schedule classes
# ------------------------------------------------------------------------------------------
def tlc_classes(K):
    d = tempfile.mkdtemp(prefix="c18tlc_")
    try:
        shutil.copy(os.path.join(TLA_DIR, "ChainPool.tla"), d)
        with open(os.path.join(d, "ChainPool.cfg"), "w") as fh:
            fh.write("CONSTANT K = %d\nINIT Init\nNEXT Next\nINVARIANT TypeOK\n" % K)
        cmd = ["tlc", "-workers", "1", "-noGenerateSpecTE", "-deadlock", "-metadir", os.path.join(d, "meta"), "-dump", "dot,actionlabels", os.path.join(d, "graph"), "ChainPool.tla"]
        p = subprocess.run(cmd, cwd=d, capture_output=True, text=True, timeout=900)
        if "Model checking completed. No error has been found." not in p.stdout:
            raise RuntimeError("TLC failed: " + p.stdout[-800:] + p.stderr[-300:])
        m = re.search(r"(\d+) states generated, (\d+) distinct states found", p.stdout)
        dot = open(os.path.join(d, "graph.dot")).read()
    finally:
        shutil.rmtree(d, ignore_errors=True)
    nodes = {}
    for mm in re.finditer(r'^(-?\d+) \[label="(.*?)"[,\]]', dot, re.M):
        nodes[mm.group(1)] = mm.group(2)
    edges = re.findall(r'^(-?\d+) -> (-?\d+) \[label="([^"]*)"', dot, re.M)
    out_deg = {}
    for a, b, _ in edges:
        if a != b:
            out_deg[a] = out_deg.get(a, 0) + 1
    classes = set()
    for nid, label in nodes.items():
        if out_deg.get(nid, 0):
            continue
        lab = label.replace("\\n", " ").replace("\\\\", "\\")
        hist = re.search(r"hist = <<(.*?)>> *(?:/\\|$)", lab)
        done = re.search(r"done = <<([^<>]*)>>", lab)
        hs = re.findall(r"<<([^<>]*)>>", "<<" + hist.group(1) + ">>")
        workers = tuple(sorted(tuple(int(x) for x in h.split(",") if x.strip()) for h in hs if h.strip()))
        order = tuple(int(x) for x in done.group(1).split(",") if x.strip())
        classes.add((workers, order))
    return classes, int(m.group(2)), len(edges)


def python_classes(K):
    """Independent enumeration: simulate the pool directly."""
    out = set()

    def rec(queue, running, hist, done):
        moved = False
        seen_idle = False
        for w in range(K):
            if running[w] is None and queue:
                key = (tuple(hist[w]),)
                moved = True
                r2 = list(running)
                r2[w] = queue[0]
                rec(queue[1:], r2, hist, done)
            if running[w] is not None:
                moved = True
                h2 = [list(h) for h in hist]
                h2[w].append(running[w])
                r2 = list(running)
                r2[w] = None
                rec(queue, r2, h2, done + [running[w]])
        if not moved:
            out.add((tuple(sorted(tuple(h) for h in hist if h)), tuple(done)))

    rec(list(range(K)), [None] * K, [[] for _ in range(K)], [])
    return out


def warm_pairs(classes):
    """(chain, chains completed before it in the same worker)"""
    out = set()
    for workers, _ in classes:
        for h in workers:
            for i, c in enumerate(h):
                out.add((c, tuple(h[:i])))
    return out


# ------------------------------------------------------------------------------------------
# the implementation side
# ------------------------------------------------------------------------------------------
def write_input(d, seed, n_mut=5):
    import numpy as np

    rs = np.random.RandomState(100 + seed)
    path = os.path.join(d, "in.tsv")
    with open(path, "w") as fh:
        fh.write("mutation_id\tsample_id\tref_counts\talt_counts\tmajor_cn\tminor_cn\tnormal_cn\n")
        for m in range(n_mut):
            for s in ("A", "B"):
                depth = int(rs.randint(60, 200))
                alt = int(rs.binomial(depth, [0.45, 0.3, 0.2, 0.1, 0.05][m % 5] * (1.0 if s == "A" else 0.6)))
                fh.write("m%d\t%s\t%d\t%d\t2\t1\t2\n" % (m, s, depth - alt, alt))
    return path


def write_loss_prob_input(d):
    """Input for the --assign-loss-prob route: string cluster ids, per-sample prevalences and chromosomes in the cluster file,
    two clusters tied for the highest prevalence (the choice of the truncal cluster decides which clusters get the high prior)."""
    clusters = {"A": list(range(1, 13)), "B": [1] * 6, "C": [7] * 6}
    prev = {"A": (1.0, 1.0), "B": (1.0, 1.0), "C": (0.4, 0.2)}
    data_rows = ["mutation_id\tsample_id\tref_counts\talt_counts\tmajor_cn\tminor_cn\tnormal_cn"]
    clus_rows = ["mutation_id\tsample_id\tcluster_id\tcellular_prevalence\tchrom"]
    for cl, chroms in clusters.items():
        for j, chrom in enumerate(chroms):
            for si, sname in enumerate(("S1", "S2")):
                depth = 100 + 3 * j
                alt = int(round(depth * prev[cl][si] / 2))
                data_rows.append("%s_m%d\t%s\t%d\t%d\t1\t1\t2" % (cl, j, sname, depth - alt, alt))
                clus_rows.append("%s_m%d\t%s\t%s\t%r\t%d" % (cl, j, sname, cl, prev[cl][si], chrom))
    f, cf = os.path.join(d, "lp_in.tsv"), os.path.join(d, "lp_clusters.tsv")
    with open(f, "w") as fh:
        fh.write("\n".join(data_rows) + "\n")
    with open(cf, "w") as fh:
        fh.write("\n".join(clus_rows) + "\n")
    return f, cf


def call_worker(mode, cfg, extra=None, env=None):
    cmd = [sys.executable, WORKER, mode, json.dumps(cfg)] + ([json.dumps(extra)] if extra is not None else [])
    e = dict(os.environ)
    if env:
        e.update(env)
    return subprocess.Popen(cmd, stdout=subprocess.PIPE, stderr=subprocess.PIPE, text=True, env=e)


def collect(proc, timeout=1800):
    out, err = proc.communicate(timeout=timeout)
    for line in out.splitlines():
        if line.startswith("C18OUT "):
            return json.loads(line[7:])
    return {"error": (err or out)[-600:]}


def run_batch(jobs, width=16):
    """jobs: list of (key, mode, cfg, extra, env) -> dict key -> result, at most `width` processes at a time."""
    res = {}
    pending = list(jobs)
    live = []
    while pending or live:
        while pending and len(live) < width:
            key, mode, cfg, extra, env = pending.pop(0)
            live.append((key, call_worker(mode, cfg, extra, env)))
        key, proc = live.pop(0)
        res[key] = collect(proc)
    return res


def configs(tier, d, seed):
    small = write_input(d, seed)
    base = dict(in_file=small, iters=12, burnin=2, N=5, grid_size=11, seed=11 + seed)
    out = []
    for prop in ("bootstrap", "semi-adapted", "fully-adapted"):
        # outlier probability 0.3: trees regularly hold two or more outliers at once, which is when the order of the
        # outlier collection (and anything hash-seed dependent about it) feeds the generator
        for op in ((0.0, 0.3) if tier == "thorough" else ((0.3,) if prop in ("semi-adapted", "bootstrap") else (0.0,))):
            out.append(dict(base, proposal=prop, outlier_prob=op, subtree_prob=(0.3 if prop == "fully-adapted" else 0.0)))
            if prop == "bootstrap":
                out[-1]["seed"] = 0  # "all seeds": zero is a seed like any other
    ex = dict(in_file="/repo/examples/data/mixing_small.tsv", cluster_file="/repo/examples/data/mixing_small_clusters.tsv", iters=(25 if tier == "thorough" else 14), burnin=3, N=6,
              grid_size=21, seed=3 + seed)
    out.append(dict(ex, proposal="semi-adapted", outlier_prob=0.0))
    # outlier priors assigned from the data (--assign-loss-prob): string cluster ids, a tie for the truncal cluster
    lf, lcf = write_loss_prob_input(d)
    out.append(dict(in_file=lf, cluster_file=lcf, iters=8, burnin=2, N=4, grid_size=11, seed=5 + seed, proposal="semi-adapted", outlier_prob=0.0, assign_loss_prob=True))
    if tier == "thorough":
        out.append(dict(ex, proposal="fully-adapted", outlier_prob=0.01))
        out.append(dict(ex, proposal="bootstrap", outlier_prob=0.0))
    return out


def audit_case(item):
    """All randomness must come from the generator that was passed in: run the real chain driver / main loop
    under the enumerating generator with numpy's and Python's global random state forbidden."""
    from mc.checks import c19
    from mc.enumrng import explore

    cfg, policy = item
    run = c19.make_run(cfg)
    out = {"item": item, "n": 0, "escapes": []}
    for p, (probs, ne), choices, ndev in explore(run, policy=policy, max_deviations=(1 if cfg.get("start") is not None else 0), max_execs=60):
        out["n"] += 1
        for pr in probs:
            if "GlobalRandomnessUsed" in pr and len(out["escapes"]) < 2:
                out["escapes"].append({"problem": pr, "choices": choices})
    return out


def audit_items(tier):
    from mc import oracle

    items = []
    n_states = len(oracle.all_states(3, outliers=True))
    for si in range(n_states):
        for k, prop in enumerate(("bootstrap", "semi-adapted", "fully-adapted")):
            if tier == "quick" and (si + k) % 3:
                continue
            items.append((dict(n=3, proposal=prop, N=2, threshold=0.5, outlier_prob=0.3, subtree_prob=(1.0 if si % 2 else 0.0), iters=2, conc_update=True, start=si), "likely"))
    for prop in ("bootstrap", "semi-adapted", "fully-adapted"):
        for op in (0.0, 0.5):
            items.append((dict(n=2, proposal=prop, N=2, outlier_prob=op, subtree_prob=0.5, iters=2, burnin=2, conc_update=True), "first"))
            items.append((dict(n=2, proposal=prop, N=2, outlier_prob=op, subtree_prob=0.5, iters=2, burnin=2, conc_update=True), "unlikely"))
    return items


def main(tier, seed):
    chk = Check("C18", tier, seed)
    chk.rule = ("schedule classes = terminal states of the TLC state graph of mc/tla/ChainPool.tla for K=2 and K=3 chains (per worker: chains completed in order; global "
                "completion order), cross-checked against an independent Python enumeration; EVERY (chain, warm-history) pair replayed in a fresh process through the real "
                "run() wiring and compared bit-exactly (trees, alpha, log_p_one) with the cold run of that chain; EVERY completion order through the real output writer; "
                "real spawn-pool runs under PYTHONHASHSEED in {0,1,2,seeded} x CPU affinity {1 core, all}; the real pool steered into worker re-use; a randomness audit (main loop from every tree over 3 data points under the enumerating generator with global random state forbidden); non-trivial = a pair with a non-empty warm history")
    chk.assumptions = ["OS scheduling is modelled at the granularity at which chains can interact at all: which chains a worker process ran before, and the completion order",
                       "hash seeds and option sets are a finite set; short runs (12-25 iterations)", "a warm worker is emulated by running the earlier chains in the same fresh process through the same submitted callables"]
    d = tempfile.mkdtemp(prefix="c18_", dir="/dev/shm" if os.path.isdir("/dev/shm") else None)
    try:
        all_classes = {}
        for K in (2, 3):
            cl, nstates, nedges = tlc_classes(K)
            py = python_classes(K)
            all_classes[K] = cl
            chk.n_states_extra += nstates
            chk.transitions += nedges
            chk.note("tlc_K%d" % K, {"distinct_states": nstates, "edges": nedges, "schedule_classes": len(cl), "warm_pairs": len(warm_pairs(cl))})
            if cl != py:
                chk.violation({"sub": "model"}, {"problem": "TLC schedule classes differ from the independent enumeration", "only_tlc": sorted(cl - py)[:3], "only_python": sorted(py - cl)[:3]}, {"K": K})
        # randomness audit (in-process, exhaustive over start trees): nothing may bypass the passed generator
        from mc.harness import pool_imap

        n_audit = 0
        for r in pool_imap(audit_case, audit_items(tier), chunksize=2):
            n_audit += r["n"]
            chk.traces_validated += r["n"]
            for e in r["escapes"]:
                chk.violation({"sub": "randomness-escapes-the-seeded-generator"}, {"config": r["item"][0], "problem": e["problem"]}, {"audit": r["item"][0], "choices": e["choices"]})
        chk.note("randomness_audit_runs", n_audit)
        cfgs = configs(tier, d, seed)
        jobs = []
        for ci, cfg in enumerate(cfgs):
            for K in ((2, 3) if tier == "thorough" else (3,)):
                c = dict(cfg, chains=K)
                for pi, (chain, hist) in enumerate(sorted(warm_pairs(all_classes[K]))):
                    # cold references under hash seed 0, warm replays under other hash seeds: a trace may depend on neither
                    hseed = "0" if not hist else ["1", "2", "3", "5", str(1000 + seed), "77"][(pi + ci) % 6]
                    jobs.append((("pair", ci, K, chain, hist), "chains", c, list(hist) + [chain], {"PYTHONHASHSEED": hseed}))
                jobs.append((("orders", ci, K), "orders", c, None, {"PYTHONHASHSEED": "5"}))
        # real pool runs
        real_cfg = dict(cfgs[1], chains=2)
        hs = ["0", "1", "2", str(1000 + seed)]
        ncpu = os.cpu_count() or 1
        for h in hs:
            for aff in ([0], None):
                if tier == "quick" and h in ("1", "2") and aff is None:
                    continue
                jobs.append((("real", h, "1core" if aff else "all"), "real", dict(real_cfg, affinity=aff), None, {"PYTHONHASHSEED": h}))
        # steer the REAL spawn pool into worker re-use (binds the TLC model to the implementation)
        steer_ci = 3  # the example-data option set
        for m in ((1, 2) if tier == "quick" else (1, 2, 3)):
            jobs.append((("steer", steer_ci, 3, m), "steer", dict(cfgs[steer_ci], chains=3), m, {"PYTHONHASHSEED": str(20 + m)}))
        # unsteered real-pool runs of the other proposals, judged against the cold per-chain traces too
        jobs.append((("steer", 0, 3, 3), "steer", dict(cfgs[0], chains=3), 3, {"PYTHONHASHSEED": "41"}))
        jobs.append((("steer", 2, 3, 3), "steer", dict(cfgs[2], chains=3), 3, {"PYTHONHASHSEED": "42"}))
        if tier == "thorough":
            jobs.append((("steer", 0, 3, 2), "steer", dict(cfgs[0], chains=3), 2, {"PYTHONHASHSEED": "31"}))
            jobs.append((("steer", steer_ci, 2, 1), "steer", dict(cfgs[steer_ci], chains=2), 1, {"PYTHONHASHSEED": "32"}))
        if tier == "thorough":
            r3 = dict(cfgs[-1], chains=3)
            for h in ("0", str(1000 + seed)):
                jobs.append((("real3", h, "all"), "real", r3, None, {"PYTHONHASHSEED": h}))
        res = run_batch(jobs, width=14)
        # judge
        for key, r in res.items():
            if "error" in r:
                chk.violation({"sub": "harness-or-run-failure", "kind": key[0]}, {"job": list(map(str, key)), "error": r["error"]}, {"job": list(map(str, key))})
        for ci, cfg in enumerate(cfgs):
            for K in ((2, 3) if tier == "thorough" else (3,)):
                cold = {}
                for (chain, hist) in sorted(warm_pairs(all_classes[K])):
                    r = res.get(("pair", ci, K, chain, hist), {})
                    if "error" in r:
                        continue
                    if not hist:
                        cold[chain] = r[str(chain)]
                for (chain, hist) in sorted(warm_pairs(all_classes[K])):
                    r = res.get(("pair", ci, K, chain, hist), {})
                    if "error" in r or chain not in cold:
                        continue
                    chk.traces_validated += 1
                    chk.states.add(("pair", ci, K, chain, hist))
                    if hist:
                        chk.nontrivial.add(("pair", ci, K, chain, hist))
                    got = r[str(chain)]
                    if got["digest"] != cold[chain]["digest"]:
                        diff = [(a, b) for a, b in zip(cold[chain]["brief"], got["brief"]) if a != b][:2]
                        chk.violation({"sub": "warm-worker", "proposal": cfg["proposal"]},
                                      {"config": cfg, "chains": K, "chain": chain, "ran_before_in_same_worker": list(hist), "first_differences_(iter,alpha,log_p_one)_cold_vs_warm": diff},
                                      {"config": dict(cfg, chains=K), "chain": chain, "history": list(hist)})
                    # every history chain's own trace must also be the cold one (it ran first or after others)
                    for j, hc in enumerate(hist):
                        if hc in cold and r.get(str(hc), {}).get("digest") not in (None, cold[hc]["digest"]) and not hist[:j]:
                            chk.violation({"sub": "cold-run-not-reproducible"}, {"config": cfg, "chain": hc}, {"config": dict(cfg, chains=K), "chain": hc, "history": []})
                ro = res.get(("orders", ci, K), {})
                if "error" not in ro and ro:
                    ref = None
                    for order, o in sorted(ro.items()):
                        chk.traces_validated += 1
                        chk.states.add(("order", ci, K, order))
                        chk.nontrivial.add(("order", ci, K, order))
                        if sorted(o["per_chain"]) != [str(c) for c in range(K)] or o["chain_num_fields"] != list(range(K)):
                            chk.violation({"sub": "completion-order"}, {"config": cfg, "order": order, "problem": "chains in the file %r" % sorted(o["per_chain"])}, {"config": dict(cfg, chains=K), "order": order})
                        if ref is None:
                            ref = o["per_chain"]
                        elif o["per_chain"] != ref:
                            chk.violation({"sub": "completion-order"}, {"config": cfg, "order": order, "problem": "per-chain traces depend on the completion order"}, {"config": dict(cfg, chains=K), "order": order})
                        for c in range(K):
                            if c in cold and False:
                                pass
        realised = []
        for key, r in sorted(res.items(), key=lambda kv: repr(kv[0])):
            if key[0] != "steer" or "error" in r:
                continue
            _, ci, K, m = key
            cls = (tuple(sorted(tuple(h) for h in r["workers"])), tuple(r["completion_order"]))
            realised.append({"chains": K, "free_workers": m, "workers": r["workers"], "completion_order": r["completion_order"]})
            chk.traces_validated += 1
            chk.states.add(("steer",) + key[1:])
            if any(len(h) > 1 for h in r["workers"]):
                chk.nontrivial.add(("steer",) + key[1:])
            if cls not in all_classes.get(K, py if K == 3 else python_classes(K)):
                chk.violation({"sub": "model-binding"}, {"problem": "the real pool produced a schedule the TLC model does not contain", "observed": r["workers"], "order": r["completion_order"]}, {"steer": list(map(str, key))})
            cold_ref = {}
            for (chain, hist) in warm_pairs(all_classes[K] if K in all_classes else python_classes(K)):
                rr = res.get(("pair", ci, K, chain, hist), {})
                if not hist and "error" not in rr and rr:
                    cold_ref[chain] = rr[str(chain)]["digest"]
            for c, v in r["per_chain"].items():
                if int(c) in cold_ref and v["digest"] != cold_ref[int(c)]:
                    chk.violation({"sub": "real-pool-steered", "proposal": cfgs[ci]["proposal"]},
                                  {"config": cfgs[ci], "realised_schedule": r["workers"], "completion_order": r["completion_order"], "chain": int(c),
                                   "problem": "trace of the chain on the real pool under this schedule differs from its cold trace"}, {"steer": list(map(str, key))})
        chk.note("schedule_classes_realised_on_the_real_pool", realised)
        real = {k: v for k, v in res.items() if k[0] == "real" and "error" not in v}
        ref = None
        for k, v in sorted(real.items()):
            chk.traces_validated += 1
            chk.states.add(k)
            chk.nontrivial.add(k)
            dig = {c: x["digest"] for c, x in v.items()}
            if ref is None:
                ref = (k, dig)
            elif dig != ref[1]:
                chk.violation({"sub": "real-pool", "what": "hash seed / affinity"}, {"config": real_cfg, "run_a": list(ref[0]), "run_b": list(k), "digests_a": ref[1], "digests_b": dig}, {"real": list(k)})
        real3 = {k: v for k, v in res.items() if k[0] == "real3" and "error" not in v}
        ds = {json.dumps({c: x["digest"] for c, x in v.items()}, sort_keys=True) for v in real3.values()}
        if len(ds) > 1:
            chk.violation({"sub": "real-pool", "what": "3 chains"}, {"digests": sorted(ds)}, {"real3": True})
        chk.evaluations = len(jobs)
        chk.note("processes_started", len(jobs))
        chk.note("option_sets", len(cfgs))
        chk.sample({"schedule_class_K3": {"workers": [[0, 2], [1]], "completion_order": [0, 2, 1]}, "replayed_as": "fresh process runs chain 0 then chain 2; chain 2's trace must equal its cold trace"})
        chk.sample({"real_pool_run": {"PYTHONHASHSEED": "1", "affinity": "1 core"}})
    finally:
        shutil.rmtree(d, ignore_errors=True)
    return chk.finish()


def replay(path):
    body = json.load(open(path))
    rp = body["replay"]
    if "history" in rp:
        cfg = rp["config"]
        cold = collect(call_worker("chains", cfg, [rp["chain"]]))
        warm = collect(call_worker("chains", cfg, rp["history"] + [rp["chain"]]))
        a, b = cold[str(rp["chain"])], warm[str(rp["chain"])]
        print("cold", a["digest"], "warm", b["digest"])
        print([(x, y) for x, y in zip(a["brief"], b["brief"]) if x != y][:3])
        return 1 if a["digest"] != b["digest"] else 0
    print("replay of this sub-check: re-run ./check C18")
    return 1
