"""E1: the exhaustively enumerating random generator and the stateless explorer.

`EnumRNG` is a subclass of `numpy.random.Generator`, so `isinstance` checks in numpy / scipy
pass and `scipy.stats.<law>.rvs(random_state=rng)` routes into it.  Every draw PhyClone makes
is a *choice point*: a finite list of outcomes with exact probabilities.  One execution follows
a recorded prefix of alternative indices and then alternative 0 at every later point; the
explorer enumerates every execution (full mode) or every execution within a deviation bound.

Nothing here samples: the only `random` bits ever consumed belong to a dummy generator that is
used solely to let numpy validate arguments exactly as production would.
"""
import itertools
import math

import numpy as np


class Diverged(Exception):
    """A replayed prefix met a different choice point than the one recorded."""


class UnmodelledRandomness(BaseException):
    """The code under test used a random API the harness does not enumerate.  Derives from BaseException so that
    no `except Exception` in the code under test or in a check can mistake a limit of the HARNESS for a failure of
    the code: it always surfaces as HARNESS-ERROR, never as a violation."""


class GlobalRandomnessUsed(Exception):
    """Randomness that bypasses the generator that was passed in (numpy's / Python's global state)."""


class SymU(object):
    """A uniform(0,1) draw whose value is decided only by the comparisons made on it."""

    __slots__ = ("rng", "lo", "hi")

    def __init__(self, rng):
        self.rng = rng
        self.lo = 0.0
        self.hi = 1.0

    def _lt(self, c):
        c = float(c)
        if c != c:
            raise ValueError("uniform draw compared with NaN")
        if c <= self.lo:
            return False
        if c >= self.hi:
            return True
        p = (c - self.lo) / (self.hi - self.lo)
        self.rng._s.draws.append(("u<", (p,)))
        k = self.rng._choose("u<", [p, 1.0 - p], ("lt", c))
        if k == 0:
            self.hi = c
            return True
        self.lo = c
        return False

    def __lt__(self, c):
        return self._lt(c)

    def __le__(self, c):  # boundary has measure zero
        return self._lt(c)

    def __ge__(self, c):
        return not self._lt(c)

    def __gt__(self, c):
        return not self._lt(c)

    def _refuse(self, *a, **k):
        raise UnmodelledRandomness("arithmetic on a symbolic uniform draw")

    __float__ = __add__ = __radd__ = __sub__ = __rsub__ = __mul__ = __rmul__ = _refuse
    __truediv__ = __rtruediv__ = __neg__ = __bool__ = __array__ = _refuse


def compositions(n, k):
    """All k-tuples of non-negative ints summing to n (lexicographic)."""
    if k == 1:
        yield (n,)
        return
    for i in range(n + 1):
        for rest in compositions(n - i, k - 1):
            yield (i,) + rest


# quantile alphabets for continuous laws (C13, C19): a finite set of representative values.
# the two tail quantiles reach the values a long run meets now and then (underflow to 0.0, huge values)
QUANTILES = (0.5, 0.02, 0.15, 0.35, 0.65, 0.85, 0.98, 1e-9, 1.0 - 1e-9)


class Schedule(object):
    """The shared choice log of one execution (shared by an EnumRNG and everything it spawns)."""

    __slots__ = ("prefix", "trace", "log_prob", "prob", "policy", "draws", "picks")

    def __init__(self, prefix=(), policy="first"):
        self.prefix = list(prefix)
        self.trace = []  # (kind, n_live, chosen_rank, prob)
        self.prob = 1.0
        self.policy = policy
        self.draws = []  # (api, args) of every law-level draw, for recording checks (C13)
        self.picks = []  # value returned by every single-element choice(), in order


def _order(live, probs, policy):
    """Canonical order of the alternatives: alternative 0 is the policy's default."""
    if policy == "first":
        return live
    if policy == "last":
        return live[::-1]
    if policy == "likely":
        return sorted(live, key=lambda i: (-probs[i], i))
    if policy == "unlikely":
        return sorted(live, key=lambda i: (probs[i], i))
    raise ValueError(policy)


class EnumRNG(np.random.Generator):
    def __init__(self, prefix=(), policy="first", _sched=None):
        super().__init__(np.random.PCG64(12345))
        self._s = _sched if _sched is not None else Schedule(prefix, policy)
        self._dummy = np.random.Generator(np.random.PCG64(999))

    # -- bookkeeping -----------------------------------------------------------------------
    @property
    def trace(self):
        return self._s.trace

    @property
    def prob(self):
        return self._s.prob

    @property
    def draws(self):
        return self._s.draws

    def _choose(self, kind, probs, info=None):
        s = self._s
        probs = [float(p) for p in probs]
        live = [i for i, p in enumerate(probs) if p > 0.0]
        if not live:
            raise ValueError("choice point %s with no outcome of positive probability: %r" % (kind, probs))
        live = _order(live, probs, s.policy)
        i = len(s.trace)
        if i < len(s.prefix):
            k = s.prefix[i]
            if isinstance(k, (tuple, list)):  # (rank, kind, n_live) recorded form: verify
                k, rkind, rn = k
                if rkind != kind or rn != len(live):
                    raise Diverged("point %d: recorded %s/%d, met %s/%d" % (i, rkind, rn, kind, len(live)))
            if k >= len(live):
                raise Diverged("point %d (%s): alternative %d of %d" % (i, kind, k, len(live)))
        else:
            k = 0
        p = probs[live[k]]
        s.trace.append((kind, len(live), k, p))
        s.prob *= p
        return live[k]

    # -- numpy Generator API used by PhyClone ----------------------------------------------
    def random(self, size=None, *a, **k):
        if size is not None or a or k:
            raise UnmodelledRandomness("random(size=...)")
        return SymU(self)

    def multinomial(self, n, pvals, size=None):
        if size is not None:
            shape = (size,) if isinstance(size, (int, np.integer)) else tuple(size)
            total = int(np.prod(shape)) if shape else 1
            rows = [self.multinomial(n, pvals) for _ in range(total)]  # independent draws: one choice point each
            return np.array(rows, dtype=np.int64).reshape(shape + (len(rows[0]) if rows else len(pvals),))
        self._dummy.multinomial(n, pvals)  # numpy's own validation (NaN, sum > 1, n < 0 ...)
        pvals = np.asarray(pvals, dtype=float)
        k = len(pvals)
        n = int(n)
        # numpy semantics: the last category takes the remaining mass
        pv = list(pvals[:-1]) + [max(0.0, 1.0 - float(pvals[:-1].sum()))]
        tot = sum(pv)
        pv = [p / tot for p in pv]
        if n == 1:
            idx = self._choose("mult1", pv)
            out = np.zeros(k, dtype=np.int64)
            out[idx] = 1
            return out
        outs = list(compositions(n, k))
        probs = []
        for c in outs:
            lp = math.lgamma(n + 1)
            ok = True
            for ci, pi in zip(c, pv):
                if ci > 0 and pi <= 0:
                    ok = False
                    break
                lp -= math.lgamma(ci + 1)
                if ci > 0:
                    lp += ci * math.log(pi)
            probs.append(math.exp(lp) if ok else 0.0)
        idx = self._choose("multN", probs)
        return np.array(outs[idx], dtype=np.int64)

    def integers(self, low, high=None, size=None, *a, **k):
        if a or k:
            raise UnmodelledRandomness("integers(dtype/endpoint=...)")
        self._dummy.integers(low, high, size)
        if high is None:
            low, high = 0, low
        n = int(high) - int(low)
        if size is None:
            idx = self._choose("int", [1.0 / n] * n)
            return int(low) + idx
        # an array of independent draws: one choice point per element, in index order
        shape = (int(size),) if np.ndim(size) == 0 else tuple(int(x) for x in size)
        flat = [int(low) + self._choose("int", [1.0 / n] * n) for _ in range(int(np.prod(shape)))]
        return np.array(flat, dtype=np.int64).reshape(shape)

    def choice(self, a, size=None, replace=True, p=None, *args, **kw):
        if args or kw:
            raise UnmodelledRandomness("choice(axis/shuffle=...)")
        self._dummy.choice(a, size, replace, p)  # raises on empty population, bad p etc. exactly as numpy
        arr = np.asarray(a)
        if arr.ndim == 0:
            arr = np.arange(int(arr))
        n = len(arr)
        if p is not None:
            if size is not None:
                raise UnmodelledRandomness("choice(p=..., size=...)")
            idx = self._choose("choiceP", [float(x) for x in p])
            self._s.picks.append(arr[idx])
            return arr[idx]
        if size is None:
            idx = self._choose("choice1", [1.0 / n] * n)
            self._s.picks.append(arr[idx])
            return arr[idx]
        size = int(size)
        if replace:
            perms = list(itertools.product(range(n), repeat=size))
        else:
            perms = list(itertools.permutations(range(n), size))
        idx = self._choose("choiceK", [1.0 / len(perms)] * len(perms))
        return arr[list(perms[idx])]

    def shuffle(self, x, axis=0):
        """Uniform shuffle as a sequence of draws without replacement; elements that are indistinguishable for the
        caller (equal keys, e.g. repeated sentinels) are merged at every step, so the number of executions is the
        number of DISTINCT arrangements and a long list costs n small choice points instead of one with n! outcomes."""
        n = len(x)
        if n <= 1:
            return
        remaining = {}
        order = []
        for v in x:
            k = _key(v)
            if k not in remaining:
                remaining[k] = []
                order.append(k)
            remaining[k].append(v)
        out = []
        left = n
        while left > 0:
            keys = [k for k in order if remaining[k]]
            if len(keys) == 1:
                out.extend(remaining[keys[0]])
                remaining[keys[0]] = []
                break
            idx = self._choose("shuffle", [len(remaining[k]) / float(left) for k in keys])
            out.append(remaining[keys[idx]].pop(0))
            left -= 1
        for j in range(n):
            x[j] = out[j]

    def permutation(self, x, axis=0):
        if isinstance(x, (int, np.integer)):
            x = list(range(int(x)))
        x = list(x)
        self.shuffle(x)
        return np.asarray(x)

    # -- continuous laws: finite quantile alphabets (C13, C19) ------------------------------
    def _quantile_draw(self, api, args, ppf):
        self._s.draws.append((api, tuple(float(a) for a in args)))
        q = QUANTILES
        idx = self._choose(api, [1.0 / len(q)] * len(q))
        return float(ppf(q[idx]))

    def beta(self, a, b, size=None):
        self._dummy.beta(a, b, size)
        from scipy import stats

        v = self._quantile_draw("beta", (a, b), lambda u: stats.beta.ppf(u, a, b))
        return v if size is None else np.full(size, v)

    def standard_gamma(self, shape, size=None, *a, **k):
        self._dummy.standard_gamma(shape, size)
        from scipy import stats

        v = self._quantile_draw("standard_gamma", (shape,), lambda u: stats.gamma.ppf(u, shape))
        return v if size is None else np.full(size, v)

    def gamma(self, shape, scale=1.0, size=None):
        self._dummy.gamma(shape, scale, size)
        from scipy import stats

        v = self._quantile_draw("gamma", (shape, scale), lambda u: stats.gamma.ppf(u, shape, scale=scale))
        return v if size is None else np.full(size, v)

    def binomial(self, n, p, size=None):
        self._dummy.binomial(n, p, size)
        n_ = int(np.asarray(n).reshape(-1)[0])
        p_ = float(np.asarray(p).reshape(-1)[0])
        self._s.draws.append(("binomial", (float(n_), p_)))
        probs = [math.comb(n_, j) * p_ ** j * (1 - p_) ** (n_ - j) for j in range(n_ + 1)]
        v = self._choose("binomial", probs)
        return v if size is None else np.full(size, v)

    def uniform(self, low=0.0, high=1.0, size=None):
        if size is not None:
            raise UnmodelledRandomness("uniform(size=...)")
        if float(low) == 0.0 and float(high) == 1.0:
            return SymU(self)
        v = self._quantile_draw("uniform", (low, high), lambda u: low + (high - low) * u)
        return v

    def normal(self, loc=0.0, scale=1.0, size=None):
        from scipy import stats

        v = self._quantile_draw("normal", (loc, scale), lambda u: stats.norm.ppf(u, loc, scale))
        return v if size is None else np.full(size, v)

    def standard_normal(self, size=None, *a, **k):
        return self.normal(0.0, 1.0, size)

    def exponential(self, scale=1.0, size=None):
        from scipy import stats

        v = self._quantile_draw("exponential", (scale,), lambda u: stats.expon.ppf(u, scale=scale))
        return v if size is None else np.full(size, v)

    def spawn(self, n_children):
        return [EnumRNG(_sched=self._s) for _ in range(n_children)]


_ALLOWED = {
    "random", "multinomial", "integers", "choice", "shuffle", "permutation", "beta",
    "standard_gamma", "gamma", "binomial", "spawn", "bit_generator", "uniform", "normal", "standard_normal", "exponential",
}


def _refuser(name):
    def f(self, *a, **k):
        raise UnmodelledRandomness("Generator.%s is not enumerated by the harness" % name)

    f.__name__ = name
    return f


for _name in dir(np.random.Generator):
    if _name.startswith("_") or _name in _ALLOWED:
        continue
    if callable(getattr(np.random.Generator, _name)):
        setattr(EnumRNG, _name, _refuser(_name))


def _key(v):
    idx = getattr(v, "idx", None)
    if idx is not None:
        return ("dp", idx)
    try:
        hash(v)
        return ("h", v)
    except TypeError:
        return ("id", id(v))


class ScriptedRNG(EnumRNG):
    """Replays one recorded schedule without the explorer (for replay artefacts)."""

    def __init__(self, choices, policy="first"):
        super().__init__(prefix=choices, policy=policy)


# ------------------------------------------------------------------------------------------
# Explorer
# ------------------------------------------------------------------------------------------
def explore(run, policy="first", max_deviations=None, max_execs=None, stats=None):
    """Enumerate executions of run(rng).  Yields (prob, result, choices, n_deviations).

    full mode (max_deviations None): every leaf of the outcome tree.
    deviation-bounded: every execution with at most `max_deviations` non-default choices.
    """
    stack = [([], 0)]
    n = 0
    while stack:
        prefix, ndev = stack.pop()
        rng = EnumRNG(prefix, policy=policy)
        res = run(rng)
        tr = rng.trace
        if len(tr) < len(prefix):
            raise Diverged("execution ended after %d of %d recorded choice points" % (len(tr), len(prefix)))
        n += 1
        choices = [t[2] for t in tr]
        yield rng.prob, res, choices, ndev
        if max_execs is not None and n >= max_execs:
            if stats is not None:
                stats["capped"] = True
            return
        for i in range(len(prefix), len(tr)):
            nalt = tr[i][1]
            if nalt <= 1:
                continue
            if max_deviations is not None and ndev + 1 > max_deviations:
                continue
            base = choices[:i]
            for alt in range(nalt - 1, 0, -1):
                stack.append((base + [alt], ndev + 1))


def explore_all(run, **kw):
    """Full enumeration with the mass certificate: returns (dict result->prob, n_exec, total)."""
    out = {}
    n = 0
    tot = 0.0
    for p, res, _c, _d in explore(run, **kw):
        out[res] = out.get(res, 0.0) + p
        tot += p
        n += 1
    return out, n, tot


# ------------------------------------------------------------------------------------------
# no randomness may escape the generator that was passed in
# ------------------------------------------------------------------------------------------
class _ForbiddenGlobalState(object):
    def __getattr__(self, name):
        raise GlobalRandomnessUsed("numpy's global random state was used (%s): randomness that bypasses the passed generator" % name)


def forbid_global_randomness():
    """Make every use of numpy's / Python's global random state raise: all randomness of the code
    under test has to come from the generator the harness passes in (seeded constructors stay usable)."""
    import random as pyrandom

    if getattr(np.random, "_verif_forbidden", False):
        return
    np.random._verif_forbidden = True
    np.random.mtrand._rand = _ForbiddenGlobalState()  # what scipy's random_state=None resolves to
    try:  # scipy's distribution objects captured the global state when they were created
        import scipy.stats as st
        from scipy.stats._distn_infrastructure import rv_generic

        for name in dir(st):
            obj = getattr(st, name, None)
            if isinstance(obj, rv_generic):
                obj._random_state = _ForbiddenGlobalState()
    except Exception:
        pass

    def refuser(name):
        def f(*a, **k):
            raise GlobalRandomnessUsed("np.random.%s: randomness that bypasses the passed generator" % name)

        return f

    for name in ("random", "rand", "randn", "randint", "random_sample", "ranf", "sample", "choice", "shuffle", "permutation", "beta", "gamma",
                 "standard_gamma", "binomial", "multinomial", "uniform", "normal", "standard_normal", "exponential", "poisson", "dirichlet", "seed", "bytes"):
        if hasattr(np.random, name):
            setattr(np.random, name, refuser(name))
    real_default_rng = np.random.default_rng

    def default_rng(seed=None):
        if seed is None:
            raise GlobalRandomnessUsed("np.random.default_rng() without a seed: entropy-seeded generator inside the code under test")
        return real_default_rng(seed)

    np.random.default_rng = default_rng
    for name in ("random", "randint", "randrange", "choice", "choices", "shuffle", "sample", "uniform", "gauss", "betavariate", "gammavariate", "seed", "getrandbits"):
        setattr(pyrandom, name, refuser("(python) random." + name))
