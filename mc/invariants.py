"""C07 invariant: a Tree is a well-formed forest under one virtual root holding exactly the
given data.  Reads the object's slots directly (the class has __slots__, so the list is closed)."""
import rustworkx as rx


def wellformed(tree, data_idxs=None, allow_empty_clones=True):
    probs = []
    g = tree._graph
    root_name = tree.root_node_name
    out_name = tree.outlier_node_name
    ni = tree._node_indices
    nir = tree._node_indices_rev
    if root_name not in ni:
        return ["virtual root missing from name map"]
    root_idx = ni[root_name]
    idxs = list(g.node_indices())
    names = []
    for i in idxs:
        payload = g[i]
        names.append(payload.node_id)
        if nir.get(i, "<missing>") != payload.node_id:
            probs.append("index %r maps to name %r but payload says %r" % (i, nir.get(i, "<missing>"), payload.node_id))
        if ni.get(payload.node_id, "<missing>") != i:
            probs.append("name %r maps to index %r but sits at %r" % (payload.node_id, ni.get(payload.node_id, "<missing>"), i))
        npred = len(g.predecessors(i))
        if i == root_idx:
            if npred != 0:
                probs.append("virtual root has a parent")
        elif npred != 1:
            probs.append("node %r has %d parents" % (payload.node_id, npred))
    if len(set(map(repr, names))) != len(names):
        probs.append("duplicate node names %r" % (names,))
    if set(ni.keys()) != set(names) or len(ni) != len(names):
        probs.append("name map keys %r != payload names %r" % (sorted(map(repr, ni)), sorted(map(repr, names))))
    if set(nir.keys()) != set(idxs):
        probs.append("index map keys %r != graph indices %r" % (sorted(nir), sorted(idxs)))
    reach = set(rx.descendants(g, root_idx)) | {root_idx}
    if reach != set(idxs):
        probs.append("nodes unreachable from the virtual root: %r" % sorted(set(idxs) - reach))
    if not rx.is_directed_acyclic_graph(g):
        probs.append("graph has a cycle")
    if g.num_edges() != len(idxs) - 1:
        probs.append("edge count %d != nodes-1 %d" % (g.num_edges(), len(idxs) - 1))
    # data bookkeeping
    nameset = set(names)
    seen = {}
    for k, lst in tree._data.items():
        if k == out_name or k == root_name:
            if k == root_name and len(lst) > 0:
                probs.append("data attached to the virtual root")
            if k == out_name:
                for dp in lst:
                    seen.setdefault(dp.idx, []).append("outliers")
            continue
        if k not in nameset:
            probs.append("data entry for non-existent clone %r" % (k,))
            continue
        for dp in lst:
            seen.setdefault(dp.idx, []).append(k)
    for i in idxs:
        payload = g[i]
        if i == root_idx:
            if len(payload.data_points) != 0:
                probs.append("virtual root payload holds data")
            continue
        have = sorted(dp.idx for dp in tree._data.get(payload.node_id, []))
        if sorted(payload.data_points) != have:
            probs.append("clone %r payload idxs %r != data list %r" % (payload.node_id, sorted(payload.data_points), have))
        if not have and not allow_empty_clones:
            probs.append("clone %r is empty" % (payload.node_id,))
    for idx, where in seen.items():
        if len(where) != 1:
            probs.append("data point %r sits in %r" % (idx, where))
    if data_idxs is not None and set(seen) != set(data_idxs):
        probs.append("data set %r != expected %r" % (sorted(seen), sorted(data_idxs)))
    return probs
