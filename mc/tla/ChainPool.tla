---------------------------- MODULE ChainPool ----------------------------
(* The process pool as phyclone.run.run() uses it: K chain tasks submitted at once to a
   ProcessPoolExecutor(max_workers=K, spawn context).  Up to K worker processes exist; each
   becomes ready at an arbitrary moment (import phase of unknown length), takes the head of the
   FIFO call queue when idle, runs the chain to completion and reports it.  What a chain can
   observe of the schedule is which chains the SAME worker process completed before it (warm
   module-level caches) ; what run() observes is the completion order. *)
EXTENDS Naturals, Sequences
CONSTANT K
VARIABLES queue, running, hist, done
vars == <<queue, running, hist, done>>
Workers == 1..K
Init == /\ queue = [i \in 1..K |-> i - 1]
        /\ running = [w \in Workers |-> K]          \* K = idle marker (chains are 0..K-1)
        /\ hist = [w \in Workers |-> <<>>]
        /\ done = <<>>
Take(w) == /\ running[w] = K
           /\ Len(queue) > 0
           /\ running' = [running EXCEPT ![w] = Head(queue)]
           /\ queue' = Tail(queue)
           /\ UNCHANGED <<hist, done>>
Finish(w) == /\ running[w] # K
             /\ hist' = [hist EXCEPT ![w] = Append(hist[w], running[w])]
             /\ done' = Append(done, running[w])
             /\ running' = [running EXCEPT ![w] = K]
             /\ UNCHANGED queue
Next == \E w \in Workers : Take(w) \/ Finish(w)
Spec == Init /\ [][Next]_vars
AllDone == Len(done) = K
TypeOK == /\ Len(done) <= K
          /\ \A w \in Workers : running[w] \in 0..K
=============================================================================
