CONSTANT K = 3
INIT Init
NEXT Next
INVARIANT TypeOK
