"""E3: explicit-state breadth-first search over edit histories of the real Tree object.

A state is identified by the history (tuple of events) that reaches it from the empty tree; it
is rebuilt by replaying that history on fresh objects and de-duplicated by a canonical form that
contains every field any Tree method reads (the class has __slots__).  Transitions call the
real Tree methods in exactly the compositions the samplers use.
"""
import itertools
import pickle

import numpy as np

from mc import oracle
from mc.invariants import wellformed


def canon(t):
    g = t._graph
    nodes = tuple(sorted(
        (repr(nm), repr(t.get_parent(nm)), tuple(sorted(d.idx for d in t._data.get(nm, []))))
        for nm in t.nodes))
    outl = tuple(sorted(d.idx for d in t._data.get(t.outlier_node_name, [])))
    idx = tuple(sorted((repr(k), v) for k, v in t._node_indices.items()))
    idx_rev = tuple(sorted((k, repr(v)) for k, v in t._node_indices_rev.items()))
    arr = tuple(
        (i, np.round(g[i].log_r, 9).tobytes(), np.round(g[i].log_p, 9).tobytes(), tuple(sorted(g[i].data_points)))
        for i in sorted(g.node_indices()))
    # sibling order is state: it decides the pre-order relabelling and the convolution order
    edges = tuple((i, tuple(repr(c.node_id) for c in g.successors(i))) for i in sorted(g.node_indices()))
    # the graph library re-uses vacated node positions: which position the next clones will get is
    # hidden state that later shows in the index maps, so probe it on a scratch copy
    scratch = g.copy()
    free = tuple(scratch.add_node(None) for _ in range(3))
    return (nodes, outl, repr(t._last_node_added_to), idx, idx_rev, arr, edges, free, tuple(t.grid_size), round(float(t._log_prior), 12))


def read_everything(t):
    """Call every public read method of the tree, as the samplers do between edits: whatever a read
    computes and keeps (derived values cached on the object) is then in place when the next edit
    happens, so an edit that forgets to invalidate it shows up in the state that follows."""
    from phyclone.smc.utils import RootPermutationDistribution

    reads = [lambda: t.get_clades(), lambda: t.labels, lambda: t.roots, lambda: t.nodes, lambda: t.outliers, lambda: t.data, lambda: t.node_data,
             lambda: t.multiplicity, lambda: t.data_log_likelihood, lambda: t.get_number_of_nodes(), lambda: hash(t), lambda: t.to_newick_string(),
             lambda: t.get_descendants(), lambda: t.get_number_of_descendants(), lambda: RootPermutationDistribution.log_pdf(t)]
    for nm in list(t._node_indices):
        reads += [lambda nm=nm: t.get_children(nm), lambda nm=nm: t.get_number_of_children(nm), lambda nm=nm: t.get_descendants(nm),
                  lambda nm=nm: t.get_number_of_descendants(nm), lambda nm=nm: t.get_subtree_data_len(nm), lambda nm=nm: t.get_data_len(nm),
                  lambda nm=nm: t.get_data(nm), lambda nm=nm: t.get_parent(nm)]
    for r in reads:
        try:
            r()
        except Exception:
            pass  # a read that fails is the invariants' business, not this helper's


class Grammar(object):
    """The edit grammar of DESIGN.md section 4 / C06 over a fixed data set."""

    def __init__(self, data, subtree_variants=("same", "flat", "single", "chain"), serial=("dict", "pickle"), moves_on_full_only=False, warm=True, raw_grafts=False):
        self.moves_on_full_only = moves_on_full_only
        self.warm = warm
        # raw_grafts: the graft events stop after add_subtree (no full update() afterwards): the state the tree is in between
        # the graft and the samplers' update() call, which must already be consistent (add_subtree refreshes the path itself)
        self.raw_grafts = raw_grafts
        self.data = data
        self.dmap = {d.idx: d for d in data}
        self.subtree_variants = subtree_variants
        self.serial = serial

    def initial(self):
        from phyclone.tree import Tree

        return Tree(self.data[0].grid_size)

    SMC_EVENTS = ("add_root", "new", "outl", "copy", "dict", "pickle")

    def enabled(self, t, history=()):
        present = {d.idx for d in t.data}
        evs = []
        roots = list(t.roots)
        # SMC placements only ever act on trees that SMC itself built from the empty tree
        # (particles are copied and round-tripped through their dictionary form in between)
        smc_built = all(ev[0] in self.SMC_EVENTS for ev in history)
        for d in self.data:
            if smc_built and d.idx not in present:
                for r in roots:
                    evs.append(("add_root", d.idx, r))
                for k in range(len(roots) + 1):
                    for sub in itertools.combinations(roots, k):
                        evs.append(("new", d.idx, tuple(sub)))
                evs.append(("outl", d.idx))
        labels = t.labels
        out_name = t.outlier_node_name
        nodes = list(t.nodes)
        if self.moves_on_full_only and len(present) < len(self.data):
            # the Gibbs moves and the subtree cycle act on complete trees only; partial trees are SMC particles
            evs.append(("copy",))
            evs.append(("dict",))
            return evs
        for i, node in labels.items():
            if t.get_data_len(node) > 1 or node == out_name:
                for nn in nodes:
                    evs.append(("move", i, node, nn))
                evs.append(("move", i, node, out_name))
        if len(nodes) > 1:
            for v in nodes:
                desc = set(t.get_descendants(v)) | {v}
                for p in nodes:
                    if p not in desc:
                        evs.append(("prg", v, p))
                evs.append(("prg", v, None))
        for c in nodes:
            for var in self.subtree_variants:
                evs.append(("sub", c, var))
        evs.append(("relabel",))
        evs.append(("copy",))
        for sname in self.serial:
            evs.append((sname,))
        return evs

    def apply(self, t, ev):
        if self.warm:
            read_everything(t)
        nt = self._apply(t, ev)
        if self.warm:
            read_everything(nt)
        return nt

    def _apply(self, t, ev):
        from phyclone.tree import Tree

        data = self.dmap
        k = ev[0]
        if k == "add_root":
            t = t.copy()
            t.add_data_point_to_node(data[ev[1]], ev[2])
            return t
        if k == "new":
            t = t.copy()
            t.create_root_node(children=list(ev[2]), data=[data[ev[1]]])
            return t
        if k == "outl":
            t = t.copy()
            t.add_data_point_to_outliers(data[ev[1]])
            return t
        if k == "move":  # DataPointSampler._sample_tree
            t = t.copy()
            dp = data[ev[1]]
            t.remove_data_point_from_node(dp, ev[2])
            if ev[3] == t.outlier_node_name:
                t.add_data_point_to_outliers(dp)
            else:
                t.add_data_point_to_node(dp, ev[3])
            return t
        if k == "prg":  # PruneRegraphSampler
            pr = t.copy()
            sub = pr.get_subtree(ev[1])
            pr.remove_subtree(sub)
            nt = pr.copy()
            nt.add_subtree(sub, parent=ev[2])
            if not self.raw_grafts:
                nt.update()
            return nt
        if k == "sub":  # ParticleGibbsSubtreeSampler.sample_tree + _correct_weights
            t = t.copy()
            sr = t.get_parent(ev[1])
            par = t.get_parent(sr)
            sub = t.get_subtree(sr)
            t.remove_subtree(sub)
            for dp in t.outliers:
                t.remove_data_point_from_outliers(dp)
                sub.add_data_point_to_outliers(dp)
            if ev[2] != "same":
                new = Tree(sub.grid_size)
                outl = list(sub.outliers)
                inner = [dp for dp in sub.data if dp not in outl]
                if ev[2] == "flat":
                    for dp in inner:
                        new.create_root_node(children=[], data=[dp])
                elif ev[2] == "single":
                    if inner:
                        new.create_root_node(children=[], data=inner)
                elif ev[2] == "chain":
                    prev = []
                    for dp in inner:
                        prev = [new.create_root_node(children=prev, data=[dp])]
                for dp in outl:
                    new.add_data_point_to_outliers(dp)
                sub = Tree.from_dict(new.to_dict())  # particles hand trees over in dictionary form
            nt = t.copy()
            nt.add_subtree(sub, parent=par)
            for dp in sub.outliers:
                nt.add_data_point_to_outliers(dp)
            if not self.raw_grafts:
                nt.update()
            return nt
        if k == "relabel":
            t = t.copy()
            t.relabel_nodes()
            return t
        if k == "copy":
            return t.copy()
        if k == "dict":
            return Tree.from_dict(t.to_dict())
        if k == "pickle":
            return Tree.from_dict(pickle.loads(pickle.dumps(t.to_dict(), protocol=pickle.HIGHEST_PROTOCOL)))
        raise ValueError(ev)

    def rebuild(self, history):
        t = self.initial()
        for ev in history:
            t = self.apply(t, ev)
        return t


def expected_data(t_before, ev):
    have = {d.idx for d in t_before.data}
    if ev[0] in ("add_root", "new", "outl"):
        return have | {ev[1]}
    return have


def vec_diff(va, vb):
    """Distance between two log-likelihood vectors.  Below 1000 grid points: the largest entry-wise difference of the logs.
    From 1000 grid points on the recursion convolves by FFT, whose error is absolute relative to the row's peak (C02's error
    model: entries more than ~11 decades below the peak are not determined), so there the vectors are compared in linear
    scale relative to the peak."""
    va, vb = np.asarray(va, dtype=float), np.asarray(vb, dtype=float)
    if va.shape[-1] < 1000:
        return float(np.max(np.abs(va - vb)))
    m = np.max(vb, axis=-1, keepdims=True)
    # scaled so that the caller's 1e-9-level tolerance corresponds to 1e-6 of the peak: the FFT error (1e-11 of each
    # convolution's own peak) is amplified by the cumulative sums and by the ratio of intermediate to final peaks
    return float(np.max(np.abs(np.exp(va - m) - np.exp(vb - m)))) * 1e-3


def fresh_equal_problems(t, data, td, tol, independent=False):
    """C06 invariant: every node's cached vectors and both joint densities equal those of a tree
    freshly built with the same shape and assignment.  independent: the fresh tree is built on EMPTIED
    memo tables, so that it cannot inherit a value the history under test left in them."""
    probs = []
    a = oracle.abstract(t)
    present = [d for d in data if d.idx in {x.idx for x in t.data}]
    if not present:
        return probs
    if independent:
        from mc import stationarity

        stationarity.clear_caches(all_caches=True)
    f = oracle.build(a, data)
    if oracle.abstract(f) != a:
        return ["harness: fresh build does not reproduce the abstract state"]
    byblock_t = {}
    for nm in t.nodes:
        byblock_t[frozenset(d.idx for d in t._data[nm])] = t._graph[t._node_indices[nm]]
    byblock_f = {}
    for nm in f.nodes:
        byblock_f[frozenset(d.idx for d in f._data[nm])] = f._graph[f._node_indices[nm]]
    for b, nt in byblock_t.items():
        nf = byblock_f.get(b)
        if nf is None:
            probs.append("clone %r missing in the fresh build" % sorted(b))
            continue
        for attr in ("log_p", "log_r"):
            va, vb = getattr(nt, attr), getattr(nf, attr)
            if va.shape != vb.shape or not np.all(np.isfinite(va)) or vec_diff(va, vb) > tol:
                probs.append("clone %r %s stale: max diff %.3e" % (sorted(b), attr, vec_diff(va, vb) if va.shape == vb.shape else -1))
    da, db = t.data_log_likelihood, f.data_log_likelihood
    # the virtual root's vector is only defined once the tree has a clone (an empty or outlier-only
    # tree carries whatever the constructor or the last update() left there; nothing reads it)
    if len(byblock_t) > 0 and vec_diff(da, db) > tol:
        probs.append("root likelihood vector stale: max diff %.3e" % vec_diff(da, db))
    for name in ("log_p", "log_p_one"):
        x, y = float(getattr(td, name)(t)), float(getattr(td, name)(f))
        if not abs(x - y) <= tol * 10:
            probs.append("%s differs from fresh build: %.12g vs %.12g" % (name, x, y))
    both = td.compute_both_log_p_and_log_p_one(t)
    if not (abs(float(both[0]) - float(td.log_p(f))) <= tol * 10 and abs(float(both[1]) - float(td.log_p_one(f))) <= tol * 10):
        probs.append("fused log_p/log_p_one differs from fresh build")
    return probs


# ------------------------------------------------------------------------------------------
# level-synchronous parallel BFS
# ------------------------------------------------------------------------------------------
_CTX = {}


def _expand(history):
    g = _CTX["grammar"]
    inv = _CTX["invariant"]
    t = g.rebuild(history)
    out = []
    viol = []
    ntrans = 0
    try:
        events = g.enabled(t, history)
    except Exception as e:
        return history, out, [(history, ("enumerate-edits",), ["reading the tree raised %s: %s" % (type(e).__name__, str(e)[:200])])], 0
    for ev in events:
        try:
            nt = g.apply(t, ev)
        except Exception as e:
            viol.append((history, ev, ["edit raised %s: %s" % (type(e).__name__, str(e)[:200])]))
            continue
        ntrans += 1
        try:
            probs = inv(t, ev, nt, len(history) + 1)
        except Exception as e:
            probs = ["invariant evaluation raised %s: %s" % (type(e).__name__, str(e)[:200])]
        if probs:
            viol.append((history, ev, probs))
            continue
        try:
            # whether SMC placements stay enabled is part of the state's identity (see Grammar.enabled)
            pure = all(e[0] in g.SMC_EVENTS for e in history) and ev[0] in g.SMC_EVENTS
            out.append(((canon(nt), pure), ev, oracle.abstract(nt)))
        except Exception as e:
            viol.append((history, ev, ["canonical form raised %s: %s" % (type(e).__name__, str(e)[:200])]))
    return history, out, viol, ntrans


def bfs(grammar, invariant, max_depth, max_states=None, on_level=None):
    """Returns dict(states, transitions, depth_completed, closed, abstract_states, violations, levels)."""
    from mc.harness import pool_imap

    _CTX["grammar"] = grammar
    _CTX["invariant"] = invariant
    init = grammar.initial()
    seen = {(canon(init), True)}
    frontier = [()]
    trans = 0
    violations = []
    abstract_states = set()
    levels = []
    closed = False
    depth_done = 0
    capped = False
    sample_hist = []
    for depth in range(1, max_depth + 1):
        nxt = []
        for history, out, viol, ntrans in pool_imap(_expand, frontier, chunksize=max(1, min(64, len(frontier) // 64)), ordered=True):
            trans += ntrans
            for v in viol:
                if len(violations) < 50:
                    violations.append(v)
            for c, ev, a in out:
                if c not in seen:
                    if max_states is not None and len(seen) >= max_states:
                        capped = True
                        continue
                    seen.add(c)
                    abstract_states.add(a)
                    nxt.append(history + (ev,))
        depth_done = depth
        levels.append({"depth": depth, "new_states": len(nxt), "states": len(seen), "transitions": trans})
        if on_level:
            on_level(levels[-1])
        if nxt and len(sample_hist) < 3:
            sample_hist.append(nxt[len(nxt) // 2])
        frontier = nxt
        if not nxt:
            closed = not capped
            break
    return {"states": len(seen), "transitions": trans, "depth_completed": depth_done, "closed": closed, "capped": capped,
            "abstract_states": len(abstract_states), "violations": violations, "levels": levels, "sample_histories": sample_hist}
