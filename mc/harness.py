"""Runner plumbing shared by every check: tiers, seeds, evidence, replays, known findings."""
import hashlib
import json
import os
import sys
import time

VERIF = os.path.dirname(os.path.dirname(os.path.abspath(__file__)))
# VERIF_OUT redirects evidence and replays (used when the checks are tried against seeded changes)
EVIDENCE_DIR = os.path.join(os.environ.get("VERIF_OUT", VERIF), "evidence")
REPLAY_DIR = os.path.join(os.environ.get("VERIF_OUT", VERIF), "replays")
FINDINGS_FILE = os.path.join(VERIF, "known_findings.json")


def jsonable(o):
    import numpy as np

    if isinstance(o, dict):
        return {str(k): jsonable(v) for k, v in o.items()}
    if isinstance(o, (list, tuple)):
        return [jsonable(v) for v in o]
    if isinstance(o, (set, frozenset)):
        return sorted((jsonable(v) for v in o), key=repr)
    if isinstance(o, np.ndarray):
        return jsonable(o.tolist())
    if isinstance(o, (np.integer,)):
        return int(o)
    if isinstance(o, (np.floating,)):
        return jsonable(float(o))
    if isinstance(o, float):
        if o != o:
            return "nan"
        if o in (float("inf"), float("-inf")):
            return "inf" if o > 0 else "-inf"
        return o
    if isinstance(o, (str, int, bool)) or o is None:
        return o
    return repr(o)


def load_findings():
    if not os.path.exists(FINDINGS_FILE):
        return {"known": [], "fixed": []}
    with open(FINDINGS_FILE) as fh:
        return json.load(fh)


CURRENT = []  # the Check objects of this process (so a late harness failure cannot swallow violations already found)


class Check(object):
    """Collects coverage and violations for one property run."""

    def __init__(self, pid, tier, seed, level="model_checking"):
        CURRENT.append(self)
        self.pid = pid
        self.tier = tier
        self.seed = seed
        self.level = level
        self.t0 = time.time()
        self.states = set()
        self.n_states_extra = 0
        self.transitions = 0
        self.traces_validated = 0
        self.evaluations = 0
        self.nontrivial = set()
        self.n_nontrivial_extra = 0
        self.samples = []
        self.rule = ""
        self.exhaustive = True
        self.assumptions = []
        self.extra = {}
        self.violations = []  # dicts: key, detail, replay
        self.known_hits = {}
        self.caps = []
        self._findings = [f for f in load_findings().get("known", []) if f.get("property") == pid]

    # -- coverage --------------------------------------------------------------------------
    def sample(self, obj, limit=6):
        if len(self.samples) < limit:
            self.samples.append(jsonable(obj))

    def note(self, key, value):
        self.extra[key] = jsonable(value)

    def bump(self, key, by=1):
        self.extra[key] = self.extra.get(key, 0) + by

    def worst(self, key, value):
        value = float(value)
        if key not in self.extra or value > self.extra[key]:
            self.extra[key] = value

    def cap(self, text):
        self.exhaustive = False
        self.caps.append(text)

    # -- violations ------------------------------------------------------------------------
    def violation(self, key, detail, replay=None):
        """key: dict of family fields used to match known findings. replay: dict to store."""
        key = jsonable(key)
        for f in self._findings:
            m = f.get("match", {})

            def _fits(m_):
                return all(key.get(k) == v or (isinstance(v, list) and key.get(k) in v) for k, v in m_.items() if not k.startswith("_"))

            if _fits(m) and ("cases" not in f or any(_fits(c) for c in f["cases"])):
                h = self.known_hits.setdefault(f["id"], {"finding": f, "count": 0, "first": None})
                h["count"] += 1
                if h["first"] is None:
                    h["first"] = {"key": key, "detail": jsonable(detail)}
                return False
        path = None
        if len(self.violations) < 25:
            path = self.write_replay(key, detail, replay)
        self.violations.append({"key": key, "detail": jsonable(detail), "replay": path})
        return True

    def write_replay(self, key, detail, replay):
        os.makedirs(REPLAY_DIR, exist_ok=True)
        body = {"property": self.pid, "key": key, "detail": jsonable(detail), "replay": jsonable(replay)}
        dig = hashlib.sha1(json.dumps(body, sort_keys=True).encode()).hexdigest()[:12]
        path = os.path.join(REPLAY_DIR, "%s-%s.json" % (self.pid, dig))
        with open(path, "w") as fh:
            json.dump(body, fh, indent=1, sort_keys=True)
        return path

    # -- finish ----------------------------------------------------------------------------
    def finish(self):
        wall = time.time() - self.t0
        n_states = len(self.states) + self.n_states_extra
        n_nt = len(self.nontrivial) + self.n_nontrivial_extra
        cov = {
            "states": max(n_states, 0),
            "transitions": self.transitions,
            "traces_validated_against_impl": self.traces_validated,
            "evaluations": max(self.evaluations, self.transitions),
            "distinct_nontrivial": n_nt,
            "rule": self.rule,
            "samples": self.samples if self.samples else ["(none recorded)"],
            "exhaustive": bool(self.exhaustive),
            "caps_hit": self.caps,
            "known_findings_seen": {k: v["count"] for k, v in self.known_hits.items()},
        }
        cov.update(self.extra)
        ev = {
            "property_id": self.pid,
            "tier": self.tier,
            "seed": int(self.seed),
            "level": self.level,
            "coverage": cov,
            "assumptions": self.assumptions,
            "wall_s": round(wall, 2),
            "violations": len(self.violations),
        }
        os.makedirs(EVIDENCE_DIR, exist_ok=True)
        with open(os.path.join(EVIDENCE_DIR, "%s.json" % self.pid), "w") as fh:
            json.dump(ev, fh, indent=1, sort_keys=True)
        for fid, h in sorted(self.known_hits.items()):
            f = h["finding"]
            print("KNOWN-FINDING: property=%s %s [%s; %d case(s) this run]" % (self.pid, f["what"], fid, h["count"]))
        print(
            "%s tier=%s seed=%d states=%d transitions=%d evaluations=%d nontrivial=%d exhaustive=%s wall=%.1fs violations=%d"
            % (self.pid, self.tier, self.seed, n_states, self.transitions, cov["evaluations"], n_nt, self.exhaustive, wall, len(self.violations))
        )
        if self.violations:
            shown = set()
            for v in self.violations[:10]:
                print("  violation:", json.dumps(v["key"], sort_keys=True), "|", json.dumps(v["detail"], sort_keys=True)[:600])
            for v in self.violations:
                if v["replay"] and v["replay"] not in shown:
                    shown.add(v["replay"])
                    print("VIOLATION property=%s replay=%s" % (self.pid, v["replay"]))
                    if len(shown) >= 5:
                        break
            sys.stdout.flush()
            return 1
        sys.stdout.flush()
        return 0


class RepoCrash(Exception):
    """An exception that was raised from inside the repository's code while a check worker ran."""


def _repo_root():
    return os.path.abspath(os.environ.get("VERIF_REPO", "/repo")) + os.sep


def touches_repo(tb):
    import traceback

    root = _repo_root()
    return any(os.path.abspath(fr.filename).startswith(root) for fr in traceback.extract_tb(tb))


class _Guard(object):
    """Wraps a worker function: an uncaught exception that passed through repository code comes back as RepoCrash
    (so the runner can report it as a violation with the trace), anything else is a harness failure."""

    def __init__(self, fn):
        self.fn = fn

    def __call__(self, x):
        try:
            return self.fn(x)
        except Exception as e:
            import traceback

            if touches_repo(e.__traceback__):
                raise RepoCrash("%s: %s | item %r | %s" % (type(e).__name__, str(e)[:200], repr(x)[:300], "".join(traceback.format_tb(e.__traceback__)[-4:])[-900:]))
            raise
        except BaseException as e:
            # a BaseException (UnmodelledRandomness, SystemExit ...) would kill the pool worker silently and leave the parent
            # waiting for ever: hand it back as an ordinary exception so that the run ends with HARNESS-ERROR at once
            if isinstance(e, KeyboardInterrupt):
                raise
            raise RuntimeError("worker stopped with %s: %s | item %r" % (type(e).__name__, str(e)[:200], repr(x)[:200]))


def pool_map(fn, items, procs=None, chunksize=1):
    """Ordered parallel map over long-lived worker processes (fork; numba JIT paid once)."""
    import multiprocessing as mp

    items = list(items)
    procs = procs or min(16, os.cpu_count() or 1, max(1, len(items)))
    if procs <= 1 or len(items) <= 1:
        return [fn(x) for x in items]
    ctx = mp.get_context("fork")
    with ctx.Pool(procs) as pool:
        return pool.map(fn, items, chunksize=chunksize)


def pool_imap(fn, items, procs=None, chunksize=1, ordered=False):
    import multiprocessing as mp

    items = list(items)
    procs = procs or min(16, os.cpu_count() or 1, max(1, len(items)))
    fn = _Guard(fn)
    if procs <= 1 or len(items) <= 1:
        for x in items:
            yield fn(x)
        return
    ctx = mp.get_context("fork")
    with ctx.Pool(procs) as pool:
        for r in (pool.imap if ordered else pool.imap_unordered)(fn, items, chunksize=chunksize):
            yield r
